(* Correspondence harness for C03: same cases and model run as Harness.C02
   (cache-mode subscribes instead of stream-mode ones); the oracle decides
   property C03 on the observed replies. *)
From Coq Require Import List NArith ZArith Bool Lia.
From Cfg Require Export Harness.C02.
Import ListNotations.
Open Scope N_scope.

(* newest retained publication that passes the filters *)
Definition newest_visible (fl : list N) (items : list item) : option item :=
  find (fun it => negb (memN (i_id it) fl)) (rev items).

(* the channel's newest publication (offset = top) is present in history *)
Definition newest_present (items : list item) (top : N) : bool :=
  match rev items with it :: _ => i_off it =? top | [] => false end.

(* the client already holds the current position *)
Definition holds_position (off ep top epc : N) : bool :=
  (off =? top) && (ep =? epc) && negb (ep =? 0).

Definition cache_ok_on (off ep : N) (fl : list N) (full : out) (recovered : bool) (pubs : list item) : bool :=
  match full with
  | OHist items top epc =>
      (match pubs with
       | [] => true
       | [p] => match newest_visible fl items with Some nv => item_eqb p nv | None => false end
       | _ => false
       end) &&
      Bool.eqb recovered (newest_present items top || holds_position off ep top epc)
  | _ => false
  end.

Definition populates (h : chandler) : bool := match h with HPopulate _ _ => true | _ => false end.

Definition cache_ok (off ep : N) (fl : list N) (hnd : chandler) (full full2 : out) (res : sres) : bool :=
  match res with
  | ROk recovered pubs _ _ =>
      cache_ok_on off ep fl full recovered pubs ||
      (populates hnd && cache_ok_on off ep fl full2 recovered pubs)
  | RErr _ => false
  end.

Definition step_ok (s : rstep) : bool :=
  match s with
  | TCache ch off ep uf fl hnd full full2 res => cache_ok off ep fl hnd full full2 res
  | _ => true
  end.

Definition oracle (c : case) : bool := forallb step_ok (c_steps c).

Definition run (cs : list case) := failing corr oracle cs.
