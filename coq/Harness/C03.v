(* Correspondence harness for C03: same cases and model run as Harness.C02
   (cache-mode subscribes instead of stream-mode ones); the oracle decides
   property C03 on the observed replies. *)
From Coq Require Import List NArith ZArith Bool Lia.
From Cfg Require Export Harness.C02.
From Cfg Require Proofs.MemStream.
Import ListNotations.
Open Scope N_scope.

(* newest retained publication that passes the filters *)
Definition newest_visible (fl : list N) (items : list item) : option item :=
  find (fun it => negb (memN (i_id it) fl)) (rev items).

(* the channel's newest publication (offset = top) is present in history *)
Definition newest_present (items : list item) (top : N) : bool :=
  match rev items with it :: _ => i_off it =? top | [] => false end.

(* the client already holds the current position *)
Definition holds_position (off ep top epc : N) : bool :=
  (off =? top) && (ep =? epc) && negb (ep =? 0).

(* [extra] = the publications stored while the subscribe ran (raced ones, then
   the cache-empty handler's), whatever the filters say about them; the newest
   visible publication is looked for among the retained ones and these (a raced
   publication may already have been trimmed again when the reply is checked) *)
Fixpoint stored_items (ps : list (N * popts)) (outs : list out) : list item :=
  match ps, outs with
  | (id, _) :: r, OPub off _ 0 _ :: os => mkItem off id :: stored_items r os
  | _ :: r, _ :: os => stored_items r os
  | _, _ => []
  end.

Definition cache_ok_on (off ep : N) (fl : list N) (extra : list item) (full : out)
           (recovered : bool) (pubs : list item) : bool :=
  match full with
  | OHist items top epc =>
      (match pubs with
       | [] => true
       | [p] => match newest_visible fl (items ++ extra) with Some nv => item_eqb p nv | None => false end
       | _ => false
       end) &&
      Bool.eqb recovered (newest_present items top || holds_position off ep top epc)
  | _ => false
  end.

Definition populates (h : chandler) : bool := match h with HPopulate _ => true | _ => false end.

(* the property holds of the reply with respect to the channel content just
   before the subscribe, or - when publications arrived while it ran (the
   cache-empty handler populated the channel, or a publish raced the read) -
   with respect to the content just after it *)
Definition hnd_pubs (h : chandler) : list (N * popts) :=
  match h with HPopulate ps => ps | _ => [] end.

Definition cache_ok (off ep : N) (fl : list N) (hnd : chandler) (race : list (N * popts))
           (race_out hnd_out : list out) (full full2 : out) (res : sres) : bool :=
  let extra := stored_items race race_out ++ stored_items (hnd_pubs hnd) hnd_out in
  match res with
  | ROk recovered pubs _ _ =>
      cache_ok_on off ep fl extra full recovered pubs ||
      ((populates hnd || match race with [] => false | _ => true end) &&
       cache_ok_on off ep fl [] full2 recovered pubs)
  | RErr _ => false
  end.

(* server-side subscribe in cache mode: the push carries no "recovered" report;
   what the property says about deliveries still applies *)
Definition srv_cache_ok (fl : list N) (hnd : chandler) (hnd_out : list out) (full : out)
           (delivered : list item) : bool :=
  match full with
  | OHist items _ _ =>
      match delivered with
      | [] => true
      | [p] => match newest_visible fl (items ++ stored_items (hnd_pubs hnd) hnd_out) with
               | Some nv => item_eqb p nv | None => false end
      | _ => false
      end
  | _ => false
  end.

Definition step_ok (s : rstep) : bool :=
  match s with
  | TSrvCache ch off ep uf fl hnd hnd_out full full2 push delivered =>
      srv_cache_ok fl hnd hnd_out full delivered
  | TCache ch off ep uf fl hnd race race_out hnd_out full full2 res =>
      cache_ok off ep fl hnd race race_out hnd_out full full2 res
  | _ => true
  end.

Definition oracle (c : case) : bool := forallb step_ok (c_steps c).

(* the same, as a proposition *)
Definition CacheOn (off ep : N) (fl : list N) (extra : list item) (full : out) (recovered : bool) (pubs : list item) : Prop :=
  exists items top epc, full = OHist items top epc /\
    (pubs = [] \/ exists p, pubs = [p] /\ newest_visible fl (items ++ extra) = Some p) /\
    (recovered = true <-> newest_present items top = true \/ holds_position off ep top epc = true).

Lemma cache_ok_on_sound : forall off ep fl extra full recovered pubs,
  cache_ok_on off ep fl extra full recovered pubs = true <-> CacheOn off ep fl extra full recovered pubs.
Proof.
  intros. unfold cache_ok_on, CacheOn.
  destruct full as [| items top epc | |]; try (split; [discriminate|intros (i & t & e & X & _); discriminate]).
  rewrite andb_true_iff. split.
  - intros [A B]. exists items, top, epc. split; auto. split.
    + destruct pubs as [|p [|q r]]; auto; [|discriminate].
      destruct (newest_visible fl (items ++ extra)) as [nv|]; [|discriminate].
      right. exists p. split; auto. f_equal. symmetry.
      apply Proofs.MemStream.item_eqb_eq. rewrite <- A.
      unfold item_eqb. rewrite (N.eqb_sym (i_off p)), (N.eqb_sym (i_id p)). reflexivity.
    + apply eqb_prop in B. rewrite B. split; intro H; [apply orb_true_iff in H; exact H|apply orb_true_iff; exact H].
  - intros (i & t & e & X & A & B). inversion X; subst i t e. split.
    + destruct A as [-> | (p & -> & ->)]; auto. apply Proofs.MemStream.item_eqb_eq. reflexivity.
    + apply eqb_true_iff.
      destruct (newest_present items top || holds_position off ep top epc) eqn:E.
      * apply B. apply orb_true_iff. exact E.
      * destruct recovered; auto. exfalso.
        assert (T : newest_present items top = true \/ holds_position off ep top epc = true) by (apply B; reflexivity).
        apply orb_true_iff in T. congruence.
Qed.

Definition run (cs : list case) := failing corr oracle cs.
