(* Correspondence harness for C36: configuration, labels applied to a real connection on a
   virtual clock, and per label the observed events and the timer bookkeeping snapshot. *)
From Coq Require Import List NArith Bool.
From Cfg Require Export Lib.Run Model.Timers Model.TimersSpec.
Import ListNotations.
Open Scope N_scope.

Record case := mkCase {
  k_cfg : cfg;
  k_labels : list label;
  o_steps : list (list out);
  o_snaps : list snap
}.

Fixpoint trace (g : cfg) (s : st) (ls : list label) : option (list (list out * snap)) :=
  match ls with
  | [] => Some []
  | l :: r =>
      match step g s l with
      | None => None
      | Some (s1, o1) =>
          match trace g s1 r with
          | None => None
          | Some t => Some ((o1, snap_of s1) :: t)
          end
      end
  end.

Definition armed_eqb (a b : option (op * N)) : bool :=
  match a, b with
  | None, None => true
  | Some (x, d), Some (y, e) => op_eqb x y && (d =? e)
  | _, _ => false
  end.

Definition snap_eqb (a b : snap) : bool :=
  Bool.eqb (sn_closed a) (sn_closed b) &&
  (* after a close the code leaves its bookkeeping as it is; nothing is armed *)
  (sn_closed a ||
   (armed_eqb (sn_armed a) (sn_armed b) && (sn_e a =? sn_e b) && (sn_pr a =? sn_pr b) &&
    (sn_pi a =? sn_pi b) && (sn_po a =? sn_po b))).

Fixpoint trace_eqb (t : list (list out * snap)) (os : list (list out)) (sns : list snap) : bool :=
  match t, os, sns with
  | [], [], [] => true
  | (o, sn) :: t', o' :: os', sn' :: sns' => bag_eqb o o' && snap_eqb sn sn' && trace_eqb t' os' sns'
  | _, _, _ => false
  end.

Definition corr (c : case) : bool :=
  match trace (k_cfg c) (init (k_cfg c)) (k_labels c) with
  | None => false
  | Some t => trace_eqb t (o_steps c) (o_snaps c)
  end.

Definition oracle (c : case) : bool :=
  steps_spec (k_cfg c) (sst0 (k_cfg c)) (k_labels c) (o_steps c) (o_snaps c).

Definition run (cs : list case) := failing corr oracle cs.
