(* Correspondence harness for C18.  One case = a configuration, an operation
   sequence, and what the REAL RedisBroker (talking RESP3 to the in-process fake
   server whose EVAL/commands are answered by Model/RedisServer.v inside coqtop)
   and the REAL MemoryBroker returned and delivered for it.  Epoch strings are
   canonicalised by the driver to the nonce token of the operation that created
   them ("N<i>"), identically for both runs.
     corr   = each implementation equals its model on the projected observables
              + the Go glue built exactly the KEYS/ARGV the model builds
              + (tie shallow <-> interpreted real Lua) running the Redis-side model
                with the interpreted ASTs gives the same observables and the same
                final Redis state as with the shallow scripts;
     oracle = the property: the two implementations' observables are equal. *)
From Coq Require Import List NArith ZArith Bool String Ascii.
From Cfg Require Export Lib.Run Model.RStr Model.Redis Model.RedisScripts Model.BrokerApi18
                        Model.RedisBroker Model.MemBroker18 Model.RedisServer.
Import ListNotations.
Open Scope string_scope.

(* ---------- decidable equalities ---------- *)
Fixpoint list_eqb {A} (f : A -> A -> bool) (a b : list A) : bool :=
  match a, b with
  | [], [] => true
  | x :: a', y :: b' => f x y && list_eqb f a' b'
  | _, _ => false
  end.
Definition opt_eqb {A} (f : A -> A -> bool) (a b : option A) : bool :=
  match a, b with Some x, Some y => f x y | None, None => true | _, _ => false end.
Definition pair_eqb {A B} (f : A -> A -> bool) (g : B -> B -> bool) (a b : A * B) : bool :=
  f (fst a) (fst b) && g (snd a) (snd b).

Definition delivery_eqb (a b : delivery) : bool :=
  String.eqb (d_ch a) (d_ch b) && String.eqb (d_data a) (d_data b) && (d_off a =? d_off b)%N
  && String.eqb (d_epoch a) (d_epoch b) && Bool.eqb (d_delta a) (d_delta b)
  && opt_eqb String.eqb (d_prev a) (d_prev b).

Definition result_eqb (a b : result) : bool :=
  match a, b with
  | ResErr, ResErr => true
  | ResUnit, ResUnit => true
  | ResPublish o e s r, ResPublish o' e' s' r' =>
      (o =? o')%N && String.eqb e e' && Bool.eqb s s' && (r =? r')%N
  | ResHistory p o e, ResHistory p' o' e' =>
      list_eqb (pair_eqb N.eqb String.eqb) p p' && (o =? o')%N && String.eqb e e'
  | _, _ => false
  end.

Definition obs_eqb (a b : obs) : bool := pair_eqb result_eqb (list_eqb delivery_eqb) a b.
Definition obss_eqb := list_eqb obs_eqb.

Definition sid_eqb (a b : sid) : bool := pair_eqb N.eqb N.eqb a b.
Definition rval_eqb (a b : rval) : bool :=
  match a, b with
  | VStr x, VStr y => String.eqb x y
  | VHash x, VHash y => list_eqb (pair_eqb String.eqb String.eqb) x y
  | VList x, VList y => list_eqb String.eqb x y
  | VStream x l, VStream y l' =>
      list_eqb (fun e f => sid_eqb (e_id e) (e_id f) && list_eqb String.eqb (e_fv e) (e_fv f)) x y && sid_eqb l l'
  | VZSet x, VZSet y => list_eqb (pair_eqb String.eqb Z.eqb) x y
  | _, _ => false
  end.
Definition rstate_eqb (a b : rstate) : bool :=
  list_eqb (pair_eqb String.eqb (fun x y => rval_eqb (k_val x) (k_val y) && opt_eqb N.eqb (k_exp x) (k_exp y)))
           (store a) (store b)
  && (now a =? now b)%N.

(* ---------- what the Go glue is expected to put on the wire for one op ----------
   "@P" stands for the marshalled publication (protobuf bytes in reality). *)
Definition wire_of (cfg : bcfg) (o : op) : list (list string) :=
  match o with
  | OpPublish ch data po nonce =>
      if negb (history_on po) then
        if String.eqb (result_expire po) "" then [["publish"; message_channel ch; "@P"]]
        else [["EVAL:broker_publish_idempotent"; "1"; result_key ch (po_idem po);
               "@P"; message_channel ch; "publish"; result_expire po]]
      else
        [((if c_lists cfg then "EVAL:broker_history_add_list" else "EVAL:broker_history_add_stream")
          :: "3" :: publish_keys cfg ch po
          ++ "@P" :: tl (publish_args cfg ch data po nonce))%list]
  | OpHistory ch f mttl nonce =>
      if c_lists cfg then
        [("EVAL:broker_history_list" :: "2" :: list_key ch :: meta_key true ch :: history_list_args cfg f nonce)]
      else
        [("EVAL:broker_history_stream" :: "2" :: stream_key ch :: meta_key false ch
          :: history_stream_args cfg f mttl nonce)]
  | OpRemove ch => [["del"; if c_lists cfg then list_key ch else stream_key ch]]
  | OpTick _ => []
  end.

(* run the Redis-side model and also return the final state *)
Fixpoint rb_run_st (SC : scripts) (cfg : bcfg) (st : rstate) (ops : list op) : rstate * list obs :=
  match ops with
  | [] => (st, [])
  | o :: r => let '(st', ob) := rb_step SC cfg st o in
              let '(st'', obs) := rb_run_st SC cfg st' r in (st'', ob :: obs)
  end.

Record case := mkCase {
  c_cfg : bcfg;
  c_ops : list op;
  o_redis : list obs;                       (* real RedisBroker + fake server *)
  o_mem : list obs;                         (* real MemoryBroker *)
  o_wire : list (list (list string))        (* per op: commands the real RedisBroker sent *)
}.

Definition corr (c : case) : bool :=
  let '(st_sh, m_sh) := rb_run_st shallow (c_cfg c) rinit (c_ops c) in
  let '(st_in, m_in) := rb_run_st interp (c_cfg c) rinit (c_ops c) in
  obss_eqb m_sh (o_redis c)
  && obss_eqb (mem_run (c_cfg c) (c_ops c)) (o_mem c)
  && list_eqb (list_eqb (list_eqb String.eqb)) (map (wire_of (c_cfg c)) (c_ops c)) (o_wire c)
  && obss_eqb m_in m_sh && rstate_eqb st_in st_sh.

(* The property, on what the two implementations did. *)
Definition oracle (c : case) : bool := obss_eqb (o_redis c) (o_mem c).

Definition run (cs : list case) := failing corr oracle cs.
