(* Correspondence harness for C02 (and, re-exported, C03): after an arbitrary
   C17 history fresh real clients subscribe with recovery against a real Node
   over the real MemoryBroker (virtual clock). *)
From Coq Require Import List NArith ZArith Bool Lia.
From Cfg Require Export Lib.Run Model.MemStream Model.StreamSpec Model.Merge Model.HistoryCmd Model.Recover.
From Cfg Require Import Proofs.MemStream.
Import ListNotations.
Open Scope N_scope.

Inductive rstep :=
| TBase (o : op) (x : out)
| TStream (ch off ep : N) (reject : bool)
          (filt : list N)        (* ids excluded by the subscription's server/client tags filters *)
          (race : list (N * popts)) (race_out : list out)
                                 (* publications made right after the subscribe's history read
                                    (from a Broker.History hook), and their observed results *)
          (full : out)           (* full broker-level read taken just before the subscribe *)
          (res : sres)           (* the subscribe reply *)
| TCache (ch off ep : N) (use_filters : bool) (filt : list N) (hnd : chandler)
         (race : list (N * popts)) (race_out : list out)
         (hnd_out : list out)    (* observed results of the handler's publications (empty if it did not run) *)
         (full full2 : out)      (* full reads before / after the subscribe *)
         (res : sres)
| TPair (ch off ep_l ep_f : N) (filt : list N) (full : out) (res_l res_f : sres)
| TSrvStream (ch off ep : N) (filt : list N) (full : out)
             (push : spush)            (* the Subscribe push written to the transport / the error returned *)
             (delivered : list item)   (* publications of the channel written to the transport meanwhile *)
| TSrvCache (ch off ep : N) (use_filters : bool) (filt : list N) (hnd : chandler) (hnd_out : list out)
            (full full2 : out) (push : spush) (delivered : list item).
         (* two overlapping stream recoveries from the same offset (single flight on): the
            leader (epoch ep_l) is held inside Broker.History until the follower (ep_f,
            a different epoch string) has finished or joined *)

Record case := mkCase {
  c_now : N; c_meta : N;
  c_lim : Z;                     (* Config.RecoveryMaxPublicationLimit *)
  c_steps : list rstep
}.

Definition full_filter : hfilter := mkFilter None (-1) false.
Definition filt_of (l : list N) : N -> bool := fun id => memN id l.

Fixpoint corr_run (lim : Z) (h : hub) (steps : list rstep) : bool :=
  match steps with
  | [] => true
  | TBase o x :: r => let '(h1, y) := step h o in out_eqb y x && corr_run lim h1 r
  | TStream ch off ep reject fl race _ full res :: r =>
      let '(h1, y) := hub_get h ch full_filter 0 in
      let '(h2, z) := sub_stream lim (filt_of fl) h1 ch off ep reject 0 race in
      out_eqb y full && sres_eqb z res && corr_run lim h2 r
  | TCache ch off ep uf fl hnd race _ _ full full2 res :: r =>
      let '(h1, y) := hub_get h ch full_filter 0 in
      let '(h2, z) := sub_cache lim uf (filt_of fl) hnd h1 ch off ep 0 race in
      let '(h3, y2) := hub_get h2 ch full_filter 0 in
      out_eqb y full && sres_eqb z res && out_eqb y2 full2 && corr_run lim h3 r
  | TPair ch off ep_l ep_f fl full res_l res_f :: r =>
      (* different epoch strings = different single-flight keys: the follower reads first *)
      let '(h1, y) := hub_get h ch full_filter 0 in
      let '(h2, zf) := sub_stream lim (filt_of fl) h1 ch off ep_f false 0 [] in
      let '(h3, zl) := sub_stream lim (filt_of fl) h2 ch off ep_l false 0 [] in
      out_eqb y full && sres_eqb zf res_f && sres_eqb zl res_l && corr_run lim h3 r
  | TSrvStream ch off ep fl full push delivered :: r =>
      let '(h1, y) := hub_get h ch full_filter 0 in
      let '(h2, z) := srv_stream lim (filt_of fl) h1 ch off ep 0 in
      out_eqb y full && spush_eqb z push && (match delivered with [] => true | _ => false end) &&
      corr_run lim h2 r
  | TSrvCache ch off ep uf fl hnd _ full full2 push delivered :: r =>
      let '(h1, y) := hub_get h ch full_filter 0 in
      let '(h2, z) := srv_cache lim uf (filt_of fl) hnd h1 ch off ep 0 in
      let '(h3, y2) := hub_get h2 ch full_filter 0 in
      out_eqb y full && spush_eqb z push && out_eqb y2 full2 &&
      (match delivered with [] => true | _ => false end) && corr_run lim h3 r
  end.

Definition corr (c : case) : bool :=
  corr_run (c_lim c) (hub_init (c_now c) (c_meta c)) (c_steps c).

(* ---- C02: the property decided on the observed reply, from the channel
   content observed just before (retained items, top, epoch) ---- *)

Definition has_off (items : list item) (o : N) : bool := existsb (fun it => i_off it =? o) items.

(* some offset in (off, top] is not retained (offsets of a history read are
   distinct and <= top, so counting suffices) *)
Definition after_off (items : list item) (off : N) : list item :=
  filter (fun it => off <? i_off it) items.

Definition missing (items : list item) (off top : N) : bool :=
  (off <? top) && negb (N.of_nat (length (after_off items off)) =? top - off).

Definition truncated (lim : Z) (items : list item) (off : N) : bool :=
  let n := Z.of_nat (length (after_off items off)) in
  ((0 <? lim) && (lim <? n))%Z.

Definition expected_pubs (fl : list N) (items : list item) (off : N) : list item :=
  filter (fun it => (off <? i_off it) && negb (memN (i_id it) fl)) items.

(* the visible publications that were stored while the subscribe ran *)
Fixpoint race_items (fl : list N) (race : list (N * popts)) (outs : list out) : list item :=
  match race, outs with
  | (id, _) :: r, OPub off _ 0 _ :: os =>
      (if memN id fl then [] else [mkItem off id]) ++ race_items fl r os
  | _ :: r, _ :: os => race_items fl r os
  | _, _ => []
  end.

(* [extra] = visible publications that arrived during the subscribe: a recovered
   reply continues with them; a refused one carries nothing *)
Definition stream_ok (lim : Z) (off ep : N) (reject : bool) (fl : list N) (extra : list item)
           (full : out) (res : sres) : bool :=
  match full with
  | OHist items top epc =>
      let bad := missing items off top || (negb (ep =? 0) && negb (ep =? epc)) || truncated lim items off in
      match res with
      | ROk true pubs _ _ => negb bad && list_eqb item_eqb pubs (expected_pubs fl items off ++ extra)
      | ROk false pubs _ _ => match pubs with [] => true | _ => false end
      | RErr code => reject && (code =? ErrUnrecoverablePosition)
      end
  | _ => false
  end.

(* server-side subscribe with RecoverSince: a push that announces an offset
   below the top claims continuity from there, so the publications after it
   must have been delivered exactly (and the recovery must have been possible);
   a push announcing the top (or beyond) is a fresh position: nothing may be
   delivered as recovered *)
Definition srv_stream_ok (lim : Z) (ep : N) (fl : list N) (full : out) (push : spush)
           (delivered : list item) : bool :=
  match full, push with
  | OHist items top epc, PSub poff pep =>
      if poff <? top then
        negb (missing items poff top || (negb (ep =? 0) && negb (ep =? epc)) || truncated lim items poff) &&
        list_eqb item_eqb delivered (expected_pubs fl items poff)
      else match delivered with [] => true | _ => false end
  | _, _ => false
  end.

Definition step_ok (lim : Z) (s : rstep) : bool :=
  match s with
  | TSrvStream ch off ep fl full push delivered => srv_stream_ok lim ep fl full push delivered
  | TStream ch off ep reject fl race race_out full res =>
      stream_ok lim off ep reject fl (race_items fl race race_out) full res
  | TPair ch off ep_l ep_f fl full res_l res_f =>
      stream_ok lim off ep_l false fl [] full res_l && stream_ok lim off ep_f false fl [] full res_f
  | _ => true
  end.

Definition oracle (c : case) : bool := forallb (step_ok (c_lim c)) (c_steps c).

(* the same, as a proposition *)
Definition StreamProp (lim : Z) (off ep : N) (reject : bool) (fl : list N) (extra : list item) (full : out) (res : sres) : Prop :=
  exists items top epc, full = OHist items top epc /\
    match res with
    | ROk true pubs _ _ =>
        missing items off top = false /\ (ep = 0 \/ ep = epc) /\ truncated lim items off = false /\
        pubs = expected_pubs fl items off ++ extra
    | ROk false pubs _ _ => pubs = []
    | RErr code => reject = true /\ code = ErrUnrecoverablePosition
    end.

Lemma stream_ok_sound : forall lim off ep reject fl extra full res,
  stream_ok lim off ep reject fl extra full res = true <-> StreamProp lim off ep reject fl extra full res.
Proof.
  intros. unfold stream_ok, StreamProp.
  destruct full as [| items top epc | |]; try (split; [discriminate|intros (i & t & e & X & _); discriminate]).
  split.
  - intros H. exists items, top, epc. split; auto.
    destruct res as [code|[|] pubs o e].
    + apply andb_true_iff in H. destruct H. split; [assumption|]. lia.
    + apply andb_true_iff in H. destruct H as [H1 H2].
      apply (list_eqb_eq item_eqb item_eqb_eq) in H2.
      rewrite negb_true_iff, !orb_false_iff in H1. destruct H1 as [[A B] C].
      repeat split; auto. lia.
    + destruct pubs; [reflexivity|discriminate].
  - intros (i & t & e & X & H). inversion X; subst i t e.
    destruct res as [code|[|] pubs o e].
    + destruct H as [-> ->]. reflexivity.
    + destruct H as (A & B & C & D). rewrite A, C. subst pubs.
      replace (negb (ep =? 0) && negb (ep =? epc)) with false by lia.
      cbn [orb negb andb]. apply (list_eqb_eq item_eqb item_eqb_eq). reflexivity.
    + subst pubs. reflexivity.
Qed.

Definition run (cs : list case) := failing corr oracle cs.
