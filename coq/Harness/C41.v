(* Correspondence harness for C41 (Node.Survey).  One case = a run of the real node with a recording
   Controller: surveys started on goroutines, responses injected through the control handler in an order
   chosen by the driver (duplicates, foreign ids, late ones, several surveys at once), contexts cancelled by
   the driver (the "deadline"), and what each Survey call returned.
   corr   : the model (Model/Survey.v) returns the same results/error for every survey when the hidden
            collector steps are filled in (the driver waits for the channel to drain after every injection);
   oracle : the property decided on the log alone. *)
From Coq Require Import List NArith Bool Arith.
From Cfg Require Export Lib.Run Model.Survey.
Import ListNotations.

Inductive sev :=
| SStart (num : nat) (local : option N)       (* Survey(...) called (ids are 1,2,3... in call order); the local handler is being called *)
| SLocal (id : nat)                           (* the local handler's callback is invoked *)
| SHandlerDone (id : nat)                     (* the local handler returned *)
| SDeliver (uid : N) (id : nat) (v : N)       (* a SurveyResponse{Id: id} from node uid handed to the control handler *)
| SCancel (id : nat)                          (* the survey's context is cancelled *)
| SDefaultDeadline (id : nat)                 (* a survey called with a context WITHOUT deadline: the library's own
                                                 default deadline (defaultSurveyTimeout) has passed *)
| SHang (id : nat)                            (* ... and the survey did not return within the default deadline + 3 s *)
(* stress class: the driver does NOT wait for the collector between injections *)
| SDeliverND (uid : N) (id : nat) (v : N)     (* a response handed to the control handler; no wait afterwards *)
| SYield (id : nat)                           (* the driver now lets the collector of survey id run until its channel is empty *)
| SStall (id : nat)                           (* survey id has not returned 300 ms after the last input *)
| SCollected (id : nat) (k : nat)             (* the collector of survey id received k more responses before it stopped *)
| SLocalBlocked (id : nat)                    (* the local handler's callback was invoked and has not returned after 300 ms *)
| SReturn (id : nat) (res : list (N * N)) (err : bool) (prompt : bool).
                                              (* Survey returned: results sorted by uid, error <> nil, returned within the bound *)

Record case := mkCase { c_evs : list sev }.

Fixpoint drain (fuel : nat) (st : nst) (id : nat) : nst :=
  match fuel with
  | 0 => st
  | S f => match sstep st (LCollect id) with Some st1 => drain f st1 id | None => st end
  end.

Fixpoint collect_k (k : nat) (st : nst) (id : nat) : option nst :=
  match k with
  | 0 => Some st
  | S k' => match sstep st (LCollect id) with Some st1 => collect_k k' st1 id | None => None end
  end.

Fixpoint ins_res (e : N * N) (l : list (N * N)) : list (N * N) :=
  match l with
  | [] => [e]
  | x :: l' => if N.leb (fst e) (fst x) then e :: l else x :: ins_res e l'
  end.
Definition sort_res (l : list (N * N)) := fold_right ins_res [] l.

Fixpoint res_eqb (a b : list (N * N)) : bool :=
  match a, b with
  | [], [] => true
  | x :: a', y :: b' => N.eqb (fst x) (fst y) && N.eqb (snd x) (snd y) && res_eqb a' b'
  | _, _ => false
  end.

(* [hot]: surveys whose parked collector has already been handed a response in the current burst *)
Definition already (st : nst) (id : nat) (uid : N) : bool :=
  match find_sv (n_surveys st) id with
  | Some s => existsb (fun r => N.eqb (r_uid r) uid) (s_accepted s)
  | None => false
  end.
Definition returned (st : nst) (id : nat) : bool :=
  match find_sv (n_surveys st) id with
  | Some s => match s_phase s with Returned => true | _ => false end
  | None => false
  end.

(* [fixed]: replay for a node whose handleSurveyResponse ignores a second response of a node to the same
   survey and whose local reply gives up once Survey has returned (the fix proposed for the two findings
   of the stress class); corr accepts either behaviour until the model is switched over. *)
Fixpoint s_run (fixed : bool) (hot : list nat) (st : nst) (evs : list sev) : bool :=
  match evs with
  | [] => true
  | e :: evs' =>
      match e with
      | SStart num local => match sstep st (LStart num local) with Some st1 => s_run fixed [] st1 evs' | None => false end
      | SLocal id => if fixed && returned st id then s_run fixed [] st evs' else
                     match sstep st (LLocal id) with Some st1 => s_run fixed [] (drain 20 st1 id) evs' | None => false end
      | SHandlerDone id => match sstep st (LHandlerDone id) with Some st1 => s_run fixed [] (drain 20 st1 id) evs' | None => false end
      | SDeliver uid id v => if fixed && already st id uid then s_run fixed [] st evs' else
                             match sstep st (LDeliver uid id v) with Some st1 => s_run fixed [] (drain 20 st1 id) evs' | None => false end
      | SCancel id | SDefaultDeadline id => match sstep st (LCancel id) with Some st1 => s_run fixed hot st1 evs' | None => false end
      | SHang _ => false
      | SDeliverND uid id v =>
          (* the collector is parked in its select (the driver made sure of it before the burst): a send on
             an empty channel is handed to it directly, i.e. it has received that response; everything
             sent after that stays in the buffer until the driver yields *)
          let direct := negb (existsb (Nat.eqb id) hot) &&
                        match find_sv (n_surveys st) id with
                        | Some s => match s_phase s, s_buf s with Collecting, [] => true | _, _ => false end
                        | None => false
                        end in
          if fixed && already st id uid then s_run fixed hot st evs' else
          match sstep st (LDeliver uid id v) with
          | Some st1 => s_run fixed (id :: hot) (if direct then drain 1 st1 id else st1) evs'
          | None => false
          end
      | SYield id => s_run fixed [] (drain 20 st id) evs'
      | SStall id =>
          match find_sv (n_surveys st) id with
          | Some s => match s_phase s with Collecting => s_run fixed [] st evs' | _ => false end
          | None => false
          end
      | SCollected id k =>
          (* the driver computes k from what is left in a channel it assumes was filled by its burst;
             with duplicates ignored there may be less to collect *)
          if fixed then s_run fixed [] (drain k st id) evs'
          else match collect_k k st id with Some st1 => s_run fixed [] st1 evs' | None => false end
      | SLocalBlocked id => match sstep st (LLocal id) with None => s_run fixed [] st evs' | Some _ => false end
      | SReturn id res err _ =>
          let st0 := match sstep st (LDeadline id) with Some st1 => st1 | None => st end in
          match sstep st0 (LReturn id) with
          | Some st1 =>
              match find_sv (n_surveys st1) id with
              | Some s => match s_ret s with
                          | Some (r, e) => res_eqb (sort_res r) res && Bool.eqb e err && s_run fixed [] st1 evs'
                          | None => false
                          end
              | None => false
              end
          | None => false
          end
      end
  end.

Definition corr (c : case) : bool := s_run false [] n_init (c_evs c) || s_run true [] n_init (c_evs c).

(* ---- the property on the log ---- *)
(* per survey: number of expected nodes, responses delivered to it while it was open (uid, value, in
   order), cancelled?, returned? *)
Record osv := mkOsv { o_num : nat; o_got : list (N * N); o_cancelled : bool; o_returned : bool; o_local : option N;
                      o_nd : bool (* some response was injected without waiting for the collector *) }.

Fixpoint ofind (l : list (nat * osv)) (id : nat) : option osv :=
  match l with [] => None | (i, s) :: l' => if i =? id then Some s else ofind l' id end.

Fixpoint last_of (u : N) (l : list (N * N)) (acc : option N) : option N :=
  match l with
  | [] => acc
  | (k, v) :: l' => last_of u l' (if N.eqb k u then Some v else acc)
  end.

Fixpoint distinct (l : list N) (acc : list N) : list N :=
  match l with
  | [] => acc
  | x :: l' => distinct l' (if existsb (N.eqb x) acc then acc else acc ++ [x])
  end.

Fixpoint nodup_keys (l : list (N * N)) : bool :=
  match l with
  | [] => true
  | (k, _) :: l' => negb (existsb (fun e => N.eqb (fst e) k) l') && nodup_keys l'
  end.

(* the responses that count for the result: those delivered before the survey had heard from numNodes
   distinct nodes (later ones arrive after the collector has stopped) *)
Fixpoint counted (num : nat) (l : list (N * N)) (seen : list N) : list (N * N) :=
  match l with
  | [] => []
  | (k, v) :: l' =>
      if length seen =? num then []
      else (k, v) :: counted num l' (if existsb (N.eqb k) seen then seen else seen ++ [k])
  end.

Fixpoint o_walk (next : nat) (svs : list (nat * osv)) (evs : list sev) : bool :=
  match evs with
  | [] => true
  | e :: evs' =>
      match e with
      | SStart num local => o_walk (S next) ((S next, mkOsv num [] false false local false) :: svs) evs'
      | SHandlerDone _ => o_walk next svs evs'
      | SLocal id =>
          match ofind svs id with
          | Some s => match o_local s with
                      | Some v => o_walk next ((id, mkOsv (o_num s) (if o_returned s then o_got s else o_got s ++ [(0%N, v)])
                                                          (o_cancelled s) (o_returned s) None (o_nd s)) :: svs) evs'
                      | None => false
                      end
          | None => false
          end
      | SDeliver uid id v =>
          match ofind svs id with
          | Some s => o_walk next ((id, mkOsv (o_num s) (if o_returned s then o_got s else o_got s ++ [(uid, v)])
                                              (o_cancelled s) (o_returned s) (o_local s) (o_nd s)) :: svs) evs'
          | None => o_walk next svs evs'        (* a foreign id: must simply be ignored *)
          end
      | SDeliverND uid id v =>
          match ofind svs id with
          | Some s => o_walk next ((id, mkOsv (o_num s) (if o_returned s then o_got s else o_got s ++ [(uid, v)])
                                              (o_cancelled s) (o_returned s) (o_local s) true) :: svs) evs'
          | None => o_walk next svs evs'
          end
      | SCancel id | SDefaultDeadline id =>
          match ofind svs id with
          | Some s => o_walk next ((id, mkOsv (o_num s) (o_got s) true (o_returned s) (o_local s) (o_nd s)) :: svs) evs'
          | None => false
          end
      | SHang _ => false        (* "or the deadline passed": a survey must terminate *)
      | SYield _ | SCollected _ _ => o_walk next svs evs'
      | SStall id =>
          (* "returns as soon as every expected node answered": not returning is only allowed while
             fewer than numNodes distinct nodes have answered *)
          match ofind svs id with
          | Some s => negb (o_num s <=? length (distinct (map fst (o_got s)) [])) && o_walk next svs evs'
          | None => false
          end
      | SLocalBlocked _ => false   (* "late ... responses never block" *)
      | SReturn id res err prompt =>
          match ofind svs id with
          | Some s =>
              let cnt := counted (o_num s) (o_got s) [] in
              let complete := length (distinct (map fst cnt) []) =? o_num s in
              negb (o_returned s) && prompt &&
              (* at most one result per node, each of them a response to THIS survey from that node
                 (which of several duplicates is kept is not fixed by the property) *)
              nodup_keys res &&
              forallb (fun e => existsb (fun d => N.eqb (fst d) (fst e) && N.eqb (snd d) (snd e)) cnt) res &&
              (* complete: every expected node is in the result and there is no error unless the context
                 was cancelled as well; not complete: it may only return because the deadline passed *)
              (if complete then (length res =? o_num s) && (negb err || o_cancelled s)
               else o_cancelled s && err &&
                    (* every node heard before the cancellation is in the result (when the driver waited for
                       the collector after each response; otherwise a response may race with the deadline) *)
                    (o_nd s || forallb (fun k => existsb (fun e => N.eqb (fst e) k) res) (distinct (map fst cnt) []))) &&
              o_walk next ((id, mkOsv (o_num s) (o_got s) (o_cancelled s) true (o_local s) (o_nd s)) :: svs) evs'
          | None => false
          end
      end
  end.

Definition oracle (c : case) : bool := o_walk 0 [] (c_evs c).

Definition run (cs : list case) := failing corr oracle cs.
