(* Correspondence harness for C34: one case = one (configuration, channel,
   idempotency key) with the strings built by the REAL key builders of
   RedisBroker / RedisPresenceManager / RedisMapBroker, the results of the real
   extractChannel on the real PUB/SUB channel ids, and the real redisSlot of
   every built string. *)
From Coq Require Import String List NArith Bool.
From Cfg Require Export Lib.Run Model.Crc16 Model.Partition Model.RedisKeys Gen.CrcTab Gen.Precomputed.
Import ListNotations.
Open Scope N_scope.

Record build_case := mkCase {
  k_cfg : cfg;
  k_precomp : bool;            (* UsePrecomputedPartitionTags *)
  k_ch : list N;               (* channel *)
  k_idx : N;                   (* observed consistentIndex(ch, parts) (0 when parts = 0) *)
  k_tag : list N;              (* observed pubSubPartitionHashTag(idx) ([] when parts = 0) *)
  k_ik : list N;               (* idempotency key *)
  o_broker : list (list N);    (* messageChannelID, historyListKey, historyStreamKey, historyMetaKey, resultCacheKey *)
  o_presence : list (list N);  (* presenceHashKey, presenceSetKey, userSetKey, userHashKey *)
  o_map : list (list N);       (* messageChannelID, 7 buildKey keys (incl. ":nil:"), resultCacheKey, cleanupRegistrationKeyForChannel;
                                  [] when the map broker rejects the configuration *)
  o_bextract : list N;         (* RedisBroker.extractChannel(isCluster, messageChannelID(ch)) *)
  o_mextract : list N;         (* RedisMapBroker.extractChannel(messageChannelID(ch)) ([] when rejected) *)
  o_slots : list N             (* redisSlot of every string of o_broker ++ o_presence ++ o_map *)
}.

Fixpoint eqb_listN (a b : list N) : bool :=
  match a, b with
  | [], [] => true
  | x :: a', y :: b' => (x =? y) && eqb_listN a' b'
  | _, _ => false
  end.

Fixpoint eqb_listlistN (a b : list (list N)) : bool :=
  match a, b with
  | [], [] => true
  | x :: a', y :: b' => eqb_listN x y && eqb_listlistN a' b'
  | _, _ => false
  end.

Definition map_cfg_valid (c : cfg) : bool := Bool.eqb (c_cluster c) (0 <? c_parts c).

(* the tag the model expects for the observed index *)
Definition model_tag (c : cfg) (precomp : bool) (idx : N) : option (list N) :=
  if 0 <? c_parts c then
    if precomp then
      match find_tags precomputed (c_parts c) with
      | Some tags => nth_error tags (N.to_nat idx)
      | None => None
      end
    else Some (itoa idx)
  else Some [].

Definition corr_build (c : build_case) : bool :=
  let cf := k_cfg c in
  match model_tag cf (k_precomp c) (k_idx c) with
  | None => false
  | Some tag =>
      eqb_listN tag (k_tag c) &&
      eqb_listlistN (broker_keys cf tag (k_ch c) (k_ik c)) (o_broker c) &&
      eqb_listlistN (presence_keys cf (k_ch c)) (o_presence c) &&
      (if map_cfg_valid cf
       then eqb_listlistN (map_keys cf tag (k_ch c) (k_ik c)) (o_map c) &&
            eqb_listN (m_extract cf (m_message cf tag (k_ch c))) (o_mextract c)
       else match o_map c with [] => true | _ => false end) &&
      eqb_listN (b_extract cf (b_message cf tag (k_ch c))) (o_bextract c) &&
      eqb_listN (map (redis_slot_go crc16tab) (o_broker c ++ o_presence c ++ o_map c)) (o_slots c)
  end.

Definition all_same (l : list N) : bool :=
  match l with [] => true | x :: t => forallb (N.eqb x) t end.

(* The property on the strings the implementation built: in cluster mode the
   keys and the PUB/SUB channel of each component hash (Redis' hash-tag rule +
   CRC16/XMODEM specification) to one slot; the receiving side recovers the
   channel; and redisSlot itself computes Redis' HASH_SLOT. *)
Definition oracle_build (c : build_case) : bool :=
  let cf := k_cfg c in
  (if c_cluster cf then
     all_same (map redis_slot_spec (o_broker c)) &&
     all_same (map redis_slot_spec (o_presence c)) &&
     all_same (map redis_slot_spec (o_map c))
   else true) &&
  eqb_listN (o_bextract c) (k_ch c) &&
  (match o_map c with [] => true | _ => eqb_listN (o_mextract c) (k_ch c) end) &&
  eqb_listN (map redis_slot_spec (o_broker c ++ o_presence c ++ o_map c)) (o_slots c).

(* ---- one real script call (EVALSHA captured by a fake RESP server) ---- *)
Record call_case := mkCall {
  s_cfg : cfg;
  s_precomp : bool;
  s_comp : N;                  (* 0 RedisBroker, 1 RedisPresenceManager, 2 RedisMapBroker *)
  s_ch : list N;
  s_idx : N;
  s_tag : list N;
  s_ik : list N;
  s_keys : list (list N);      (* KEYS[] of the call, in order, empty strings included *)
  s_chan : option (list N);    (* the PUB/SUB channel argument the script publishes to, when the script has one *)
  s_slots : list N             (* redisSlot of every key, then of the channel *)
}.

Definition memLL (x : list N) (l : list (list N)) : bool := existsb (eqb_listN x) l.

(* every string a component may legitimately hand to one of its scripts for (cfg, channel) *)
Definition universe (cf : cfg) (comp : N) (tag ch ik : list N) : list (list N) :=
  (if c_cluster cf then [] else [[]]) ++      (* unused KEYS stay "" outside cluster mode *)
  (if comp =? 0 then broker_keys cf tag ch ik ++ [b_result cf tag ch []]
   else if comp =? 1 then presence_keys cf ch
   else map_keys cf tag ch ik).

Definition model_chan (cf : cfg) (comp : N) (tag ch : list N) : list N :=
  if comp =? 0 then b_message cf tag ch else m_message cf tag ch.

Definition call_strings (c : call_case) : list (list N) :=
  s_keys c ++ match s_chan c with Some x => [x] | None => [] end.

Definition corr_call (c : call_case) : bool :=
  let cf := s_cfg c in
  match model_tag cf (s_precomp c) (s_idx c) with
  | None => false
  | Some tag =>
      eqb_listN tag (s_tag c) &&
      forallb (fun k => memLL k (universe cf (s_comp c) tag (s_ch c) (s_ik c))) (s_keys c) &&
      match s_chan c with
      | Some x => eqb_listN x (model_chan cf (s_comp c) tag (s_ch c))
      | None => true
      end &&
      eqb_listN (map (redis_slot_go crc16tab) (call_strings c)) (s_slots c)
  end.

(* the property on one real script call: in cluster mode all its KEYS (empty
   ones included: "" is slot 0) and its PUB/SUB channel are in one slot *)
Definition oracle_call (c : call_case) : bool :=
  (if c_cluster (s_cfg c) then all_same (map redis_slot_spec (call_strings c)) else true) &&
  eqb_listN (map redis_slot_spec (call_strings c)) (s_slots c).

Inductive case := KBuild (b : build_case) | KCall (c : call_case).

Definition corr (c : case) : bool := match c with KBuild b => corr_build b | KCall k => corr_call k end.
Definition oracle (c : case) : bool := match c with KBuild b => oracle_build b | KCall k => oracle_call k end.

Definition run (cs : list case) := failing corr oracle cs.
