(* Correspondence harness for C23.  One case = a (resolved) channel configuration, an
   operation sequence, and what the REAL RedisMapBroker (talking RESP3 to the in-process fake
   server whose EVAL/commands are answered by Model/RedisMapServer.v inside coqtop) and the
   REAL MemoryMapBroker returned for it.  Epoch strings are canonicalised by the driver, per
   run and per channel, to the nonce token of the operation that first produced them.
     corr   = each implementation equals its model + the Go glue put on the wire exactly the
              commands / KEYS / ARGV the model builds + (tie shallow <-> interpreted real Lua) the
              Redis-side model run with the shallow scripts gives the same observables and the same
              final Redis state as with the interpreted ASTs;
     oracle = the property: the two implementations' observables are equal (state contents
              compared in key order = up to unordered page boundaries). *)
From Coq Require Import List NArith ZArith Bool String Ascii.
From Cfg Require Export Lib.Run Model.RStr Model.Redis Model.MapApi23 Model.RedisMapBroker Model.MemMap23
                        Model.RedisMapServer Model.RedisMapScripts.
Import ListNotations.
Open Scope string_scope.

Fixpoint list_eqb {A} (f : A -> A -> bool) (a b : list A) : bool :=
  match a, b with
  | [], [] => true
  | x :: a', y :: b' => f x y && list_eqb f a' b'
  | _, _ => false
  end.
Definition opt_eqb {A} (f : A -> A -> bool) (a b : option A) : bool :=
  match a, b with Some x, Some y => f x y | None, None => true | _, _ => false end.

Definition spub_eqb (a b : spub) : bool :=
  let '(k, o, d, s) := a in let '(k', o', d', s') := b in
  String.eqb k k' && (o =? o')%N && String.eqb d d' && (s =? s')%Z.
Definition tpub_eqb (a b : tpub) : bool :=
  let '(o, k, d, r) := a in let '(o', k', d', r') := b in
  (o =? o')%N && String.eqb k k' && String.eqb d d' && Bool.eqb r r'.

Definition mres_eqb (a b : mres) : bool :=
  match a, b with
  | MErr, MErr | MUnrec, MUnrec | MUnit, MUnit => true
  | MCount a, MCount b => (a =? b)%N
  | MUpd o e s r c, MUpd o' e' s' r' c' =>
      (o =? o')%N && String.eqb e e' && Bool.eqb s s' && String.eqb r r'
      && opt_eqb (fun x y => (fst x =? fst y)%N && String.eqb (snd x) (snd y)) c c'
  | MState p o e, MState p' o' e' => list_eqb spub_eqb p p' && (o =? o')%N && String.eqb e e'
  | MStream p o e, MStream p' o' e' => list_eqb tpub_eqb p p' && (o =? o')%N && String.eqb e e'
  | _, _ => false
  end.
Definition mress_eqb := list_eqb mres_eqb.

(* what the Go glue is expected to put on the wire for one op; "@P" = marshalled publication *)
Definition hide (i : nat) (l : list string) : list string := firstn i l ++ "@P" :: skipn (S i) l.

Definition map_wire (cf : mcfg) (o : mop) : list (list string) :=
  match o with
  | MPublish ch key po nonce now =>
      if (is_ephemeral cf && (match mp_exp po with Some _ => true | None => false end || (0 <? mp_ver po)%N))%bool then [] else
      if (is_ephemeral cf && String.eqb (mp_idem po) "" && String.eqb key "")%bool
      then [["publish"; m_channel ch; "@P"]]
      else [("EVAL:map_broker_add" :: "8" :: publish_keys cf ch key (mp_idem po)
             ++ hide 1 (publish_args cf ch key po nonce now))%list]
  | MRemove ch key ro nonce now =>
      if (is_ephemeral cf && match mr_exp ro with Some _ => true | None => false end)%bool then [] else
      [("EVAL:map_broker_add" :: "8" :: remove_keys cf ch (mr_idem ro) ++ hide 1 (remove_args cf ch key ro nonce now))%list]
  | MReadStream ch since limit reverse nonce_r _ =>
      [("EVAL:map_broker_stream_read" :: "2" :: k_stream ch :: k_meta ch :: stream_read_args cf since limit reverse nonce_r)]
  | MReadState ch rev_ limit key _ nonce _ =>
      if negb (String.eqb key "") then
        if is_ephemeral cf then [["hget"; k_state ch; key]]
        else [["hget"; k_state ch; key]; ["hmget"; k_meta ch; "s"; "e"]]
      else if (limit =? 0)%Z then
        [("EVAL:map_broker_stream_read" :: "2" :: k_stream ch :: k_meta ch :: stream_read_args cf None 0 false nonce)]
      else if mc_ordered cf then []   (* the pages of an ordered read depend on the replies: not compared (the driver logs none) *)
      else [["EVAL:map_broker_read_unordered"; "4"; k_state ch; k_expire ch; k_meta ch; k_smeta ch;
             "0"; zdec (if (limit <? 0)%Z then 0%Z else limit); nonce; millis (mc_mttl cf);
             if (0 <? mc_mttl cf)%Z then millis (mc_mttl cf) else "0"; if is_ephemeral cf then "1" else "0"]]
  | MClear ch => [["del"; k_stream ch; k_meta ch; k_state ch; k_order ch; k_expire ch; k_smeta ch]; ["zrem"; k_cleanup; ch]]
  | MTick _ => []
  | MStats ch => [["EVAL:map_broker_stats"; "1"; k_state ch]]
  | MCleanup _ _ => []     (* the cleanup cycle's commands depend on the replies: not compared (the driver logs none) *)
  end.

Record case := mkCase {
  c_cfg : mcfg;
  c_ops : list mop;
  o_redis : list mres;
  o_mem : list mres;
  o_wire : list (list (list string))
}.

Fixpoint rm_run_st (SC : mscripts) (cf : mcfg) (st : rstate) (ops : list mop) : rstate * list mres :=
  match ops with
  | [] => (st, [])
  | o :: r => let '(st', ob) := rm_step2 SC map_cinterp cf st o in     (* cleanup scripts: always interpreted *)
              let '(st'', obs) := rm_run_st SC cf st' r in (st'', ob :: obs)
  end.

Definition sid_eqb (a b : sid) : bool := ((fst a =? fst b) && (snd a =? snd b))%N.
Definition pair_eqb {A B} (f : A -> A -> bool) (g : B -> B -> bool) (a b : A * B) : bool :=
  f (fst a) (fst b) && g (snd a) (snd b).
Definition rval_eqb (a b : rval) : bool :=
  match a, b with
  | VStr x, VStr y => String.eqb x y
  | VHash x, VHash y => list_eqb (pair_eqb String.eqb String.eqb) x y
  | VList x, VList y => list_eqb String.eqb x y
  | VStream x l, VStream y l' =>
      list_eqb (fun e f => sid_eqb (e_id e) (e_id f) && list_eqb String.eqb (e_fv e) (e_fv f)) x y && sid_eqb l l'
  | VZSet x, VZSet y => list_eqb (pair_eqb String.eqb Z.eqb) x y
  | _, _ => false
  end.
Definition rstate_eqb (a b : rstate) : bool :=
  list_eqb (pair_eqb String.eqb (fun x y => rval_eqb (k_val x) (k_val y) && opt_eqb N.eqb (k_exp x) (k_exp y)))
           (store a) (store b)
  && (now a =? now b)%N.

Definition corr (c : case) : bool :=
  let '(st_in, m_in) := rm_run_st map_interp (c_cfg c) rinit (c_ops c) in
  let '(st_sh, m_sh) := rm_run_st map_shallow (c_cfg c) rinit (c_ops c) in
  mress_eqb m_in (o_redis c)
  && mress_eqb (mem_map_run (c_cfg c) (c_ops c)) (o_mem c)
  && list_eqb (list_eqb (list_eqb String.eqb)) (map (map_wire (c_cfg c)) (c_ops c)) (o_wire c)
  && mress_eqb m_sh m_in && rstate_eqb st_sh st_in.

Definition oracle (c : case) : bool := mress_eqb (o_redis c) (o_mem c).

Definition run (cs : list case) := failing corr oracle cs.
