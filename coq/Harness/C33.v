(* Correspondence harness for C33.  Three kinds of cases:
   - CParse: arbitrary bytes given to the real extractPushData (under recover());
   - CBuild: a payload built the way the broker builds it (Go prefixes; the Lua
     concatenations read from the embedded script sources and evaluated by the
     driver) and then parsed by the real extractPushData;
   - CEpoch: one value returned by the real epoch.Generate(). *)
From Coq Require Import List NArith ZArith Bool.
From Cfg Require Export Lib.Run Model.Decimal Model.PushFrame Gen.C33Lua Proofs.PushFrame.
Import ListNotations.
Open Scope N_scope.

Inductive bkind := BPlain | BJoin | BLeave | BStreamP | BStreamD | BListP | BListD.

Inductive case :=
| CParse (data : bytes) (obs : outcome)
| CBuild (k : bkind) (off : N) (epoch prev payload : bytes) (built : bytes) (obs : outcome)
| CEpoch (e : bytes).

Definition ptype_eqb (a b : ptype) : bool :=
  match a, b with PPub, PPub | PJoin, PJoin | PLeave, PLeave => true | _, _ => false end.

Definition push_eqb (a b : push) : bool :=
  bytes_eqb (p_data a) (p_data b) && ptype_eqb (p_type a) (p_type b) &&
  (p_off a =? p_off b) && bytes_eqb (p_epoch a) (p_epoch b) &&
  Bool.eqb (p_delta a) (p_delta b) && bytes_eqb (p_prev a) (p_prev b) &&
  Bool.eqb (p_ok a) (p_ok b).

Definition outcome_eqb (a b : outcome) : bool :=
  match a, b with
  | Ret x, Ret y => push_eqb x y
  | Panic, Panic => true
  | _, _ => false
  end.

(* the model of each builder; None = outside the modelled domain of Lua's
   number formatting (offset or length >= 10^14) *)
Definition model_build (k : bkind) (off : N) (epoch prev payload : bytes) : option bytes :=
  let e := mkEnv off epoch prev payload in
  match k with
  | BPlain => Some (build_plain payload)
  | BJoin => Some (build_join payload)
  | BLeave => Some (build_leave payload)
  | BStreamP => eval_tpl e lua_stream_plain
  | BStreamD => eval_tpl e lua_stream_delta
  | BListP => eval_tpl e lua_list_plain
  | BListD => eval_tpl e lua_list_delta
  end.

Definition corr (c : case) : bool :=
  match c with
  | CParse data obs => outcome_eqb (extract true data) obs
  | CBuild k off epoch prev payload built obs =>
      match model_build k off epoch prev payload with
      | Some b => bytes_eqb b built
      | None => true
      end && outcome_eqb (extract true built) obs
  | CEpoch e => forallb in_letters e && Nat.eqb (length e) epoch_len
  end.

(* what the receiving node must decode for a message built from these values *)
Definition expected (k : bkind) (off : N) (epoch prev payload : bytes) : push :=
  match k with
  | BPlain => mkPush payload PPub 0 [] false [] true
  | BJoin => mkPush payload PJoin 0 [] false [] true
  | BLeave => mkPush payload PLeave 0 [] false [] true
  | BStreamP | BListP => mkPush payload PPub off epoch false [] true
  | BStreamD | BListD => mkPush payload PPub off epoch true prev true
  end.

(* the inputs for which the property promises a round trip: offsets the Lua
   scripts print in plain decimal, epochs that do not contain the separators
   (all epochs made by epoch.Generate do), plain payloads that are not framed *)
Definition in_domain (k : bkind) (off : N) (epoch prev payload : bytes) : bool :=
  match k with
  | BPlain => negb (has_pfx payload meta_sep)
  | BJoin | BLeave => true
  | BStreamP | BListP => (off <? LUA_PLAIN) && hdr_ok epoch
  | BStreamD | BListD =>
      (off <? LUA_PLAIN) && colon_free epoch &&
      (N.of_nat (length prev) <? LUA_PLAIN) && (N.of_nat (length payload) <? LUA_PLAIN)
  end.

Definition not_panic (o : outcome) : bool := match o with Panic => false | Ret _ => true end.

(* the property, decided on what the implementation did *)
Definition oracle (c : case) : bool :=
  match c with
  | CParse _ obs => not_panic obs
  | CBuild k off epoch prev payload _ obs =>
      not_panic obs &&
      (if in_domain k off epoch prev payload
       then outcome_eqb obs (Ret (expected k off epoch prev payload))
       else true)
  | CEpoch e => hdr_ok e && colon_free e
  end.

Definition run (cs : list case) := failing corr oracle cs.
