(* Correspondence harness for C28: one case = a cluster state (node 0 = caller), the
   arguments of the real Node.Unsubscribe call, and what was observed afterwards. *)
From Coq Require Import List NArith Bool Arith.
From Cfg Require Export Lib.Run Model.UnsubAll Model.UnsubAllSpec Proofs.UnsubAll.
Import ListNotations.
Open Scope N_scope.

Record case := mkCase {
  k_target : target; k_code : N; k_chan : N;      (* inputs: options, unsubscribe code, channel (0 = "") *)
  k_nodes : list (list conn);                      (* inputs: state of every node *)
  o_conns : list (list oconn);                     (* observed: channels / hub routing per connection *)
  o_evs : list ev                                  (* observed: effects (any order) *)
}.

Fixpoint nodupN (l : list N) : bool :=
  match l with
  | [] => true
  | x :: r => negb (existsb (N.eqb x) r) && nodupN r
  end.

Definition wf_b (s : list conn) : bool :=
  nodupN (map cn_id s) && forallb (fun c => nodupN (snapshot c)) s.

Definition oconn_eqb (a b : oconn) : bool :=
  (oc_id a =? oc_id b) && eqb_listN (oc_chans a) (oc_chans b) && eqb_listN (oc_hub a) (oc_hub b).

Fixpoint list_eqb {A} (f : A -> A -> bool) (a b : list A) : bool :=
  match a, b with
  | [], [] => true
  | x :: a', y :: b' => f x y && list_eqb f a' b'
  | _, _ => false
  end.

Definition bag_eqb (a b : list ev) : bool :=
  forallb (fun e => Nat.eqb (countb e a) (countb e b)) (a ++ b).

(* model (fixed code) on the inputs = observed; effects compared as bags because the
   per-connection goroutines and Go map iteration leave the order open *)
(* the push for a rejected attempt depends on whether the application answered before or
   after the call read the channel map (both are allowed by the specification: at most one
   push): left out of the model/implementation comparison *)
Definition cancel_push (code : N) (nodes : list (list conn)) (e : ev) : bool :=
  existsb (fun c => existsb (fun chn => ev_eqb e (EvPush (cn_id c) (ch_name chn) code)) (cancelled c))
          (concat nodes).

Definition corr (c : case) : bool :=
  let '(ns, evs) := cluster_unsubscribe (k_target c) (k_chan c) (k_code c) (k_nodes c) in
  let keep := fun e => negb (cancel_push (k_code c) (k_nodes c) e) in
  wf_b (concat (k_nodes c)) &&
  list_eqb (list_eqb oconn_eqb) (map (map observe) ns) (o_conns c) &&
  bag_eqb (filter keep evs) (filter keep (o_evs c)).

(* the property decided on the observed behaviour; it speaks about the empty channel only *)
Definition oracle (c : case) : bool :=
  if k_chan c =? 0
  then unsub_all_spec_b (k_target c) (k_code c) (concat (k_nodes c)) (concat (o_conns c)) (o_evs c)
  else true.

Definition run (cs : list case) := failing corr oracle cs.
