(* Correspondence harness for C16.  One case = one scenario driven through the
   real node: a list of delivery events ("steps"), each with the inputs the
   delivery path saw (what the broker returned / what was broadcast during the
   subscribe window), the filter verdicts computed by the real filter.Match,
   and what the client actually received. *)
From Coq Require Import List NArith Bool.
From Cfg Require Export Lib.Run Model.Merge Model.TagsPaths.
Import ListNotations.
Open Scope N_scope.

Inductive step :=
(* one broadcast to a subscribed client: position before, publication,
   was a push received, position after *)
| StLive (positioned delta : bool) (cur : N) (p : pub) (o_delivered : bool) (o_cur : N)
(* subscribe with stream recovery: history result, stream top, requested offset,
   epoch matched, publications broadcast inside the window; observed:
   disconnected(insufficient state), recovered flag, ids in reply.publications *)
| StStreamRec (hist : list pub) (top cmd : N) (epoch_ok : bool) (live : list pub)
              (o_disc o_recovered : bool) (o_ids : list N)
| StCacheRec (hist_rev : list pub) (top cmd : N) (epoch_eq req_delta : bool) (live : list pub)
             (o_disc o_recovered : bool) (o_ids : list N)
| StMapState (rev : option N) (pubs : list pub) (o_ids : list N)
| StMapStream (pubs : list pub) (o_ids : list N)
(* o_res: 0 = reply, 1 = unrecoverable position, 2 = insufficient state *)
| StMapLive (limit : N) (stream live : list pub) (o_res : N) (o_ids : list N)
| StMapStreamless (live : list pub) (o_ids : list N)
| StRefresh (is_map newf had same_hash : bool) (o_unsub : bool).

Record case := mkCase { c_steps : list (verd * step) }.

Fixpoint eqb_listN (a b : list N) : bool :=
  match a, b with
  | [], [] => true
  | x :: a', y :: b' => (x =? y) && eqb_listN a' b'
  | _, _ => false
  end.

Definition ids (l : list pub) : list N := map p_id l.

Definition corr_step (vs : verd * step) : bool :=
  let '(V, s) := vs in
  match s with
  | StLive positioned delta cur p od oc =>
      let '(cur', r) := live_write V positioned delta cur p in
      (cur' =? oc) &&
      Bool.eqb od (match r with WDeliver _ => true | _ => false end)
  | StStreamRec hist top cmd eok live odisc orec oids =>
      match stream_recovery V hist top cmd eok live with
      | SDisconnect => odisc
      | SReply r pubs => negb odisc && Bool.eqb r orec && eqb_listN (ids pubs) oids
      end
  | StCacheRec hist top cmd eeq rd live odisc orec oids =>
      match cache_recovery V hist top cmd eeq rd live with
      | SDisconnect => odisc
      | SReply r pubs => negb odisc && Bool.eqb r orec && eqb_listN (ids pubs) oids
      end
  | StMapState rev pubs oids => eqb_listN (ids (map_state_page V rev pubs)) oids
  | StMapStream pubs oids => eqb_listN (ids (map_stream_page V pubs)) oids
  | StMapLive limit stream live ores oids =>
      match map_live_positioned V limit stream live with
      | MUnrecoverable => ores =? 1
      | MInsufficient => ores =? 2
      | MReply pubs => (ores =? 0) && eqb_listN (ids pubs) oids
      end
  | StMapStreamless live oids => eqb_listN (ids (map_live_streamless V live)) oids
  | StRefresh is_map newf had same ounsub =>
      Bool.eqb (sub_refresh_invalidates is_map newf had same) ounsub
  end.

(* The property on the observed behaviour: nothing excluded by either filter
   was received (non-delta), and a changed server filter on a map subscription
   was answered by an unsubscribe. Independent of the model functions. *)
Definition all_visible_b (V : verd) (l : list N) : bool := forallb (visible V) l.

Definition oracle_step (vs : verd * step) : bool :=
  let '(V, s) := vs in
  match s with
  | StLive _ delta _ p od _ => delta || negb od || visible V (p_id p)
  | StStreamRec _ _ _ _ _ _ _ oids => all_visible_b V oids
  | StCacheRec _ _ _ _ _ _ _ _ oids => all_visible_b V oids
  | StMapState _ _ oids => all_visible_b V oids
  | StMapStream _ oids => all_visible_b V oids
  | StMapLive _ _ _ _ oids => all_visible_b V oids
  | StMapStreamless _ oids => all_visible_b V oids
  | StRefresh is_map newf had same ounsub =>
      negb (is_map && newf && (negb had || negb same)) || ounsub
  end.

Definition corr (c : case) : bool := forallb corr_step (c_steps c).
Definition oracle (c : case) : bool := forallb oracle_step (c_steps c).

Definition run (cs : list case) := failing corr oracle cs.
