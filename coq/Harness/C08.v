(* Correspondence harness for C08 (connection lifecycle callbacks fire once and in order). *)
From Coq Require Import List NArith ZArith Bool.
From Cfg Require Export Harness.SLCommon.
Import ListNotations.
Open Scope N_scope.

Definition case := SLCommon.case.

(* model vs implementation: the connection-level callback sequence (connect, alive, disconnect)
   in global order, per channel the OnSubscribe / OnUnsubscribe invocations, the IsSubscribed
   snapshots after every command, the final status *)
Definition corr_rot (rot : bool) (c : case) : bool :=
  match model_of rot c with
  | None => false
  | Some s =>
      let ob := cs_obs c in
      conn_ok s ob && snaps_ok rot c && forallb (ch_trace_ok s ob) (ob_chs ob)
  end.
Definition corr (c : case) : bool := corr_rot false c || corr_rot true c.

(* ---- the property on the observed callback log ---- *)
Definition is_cb (e : oev) : bool :=
  match e with OJoin _ | OLeave _ => false | _ => true end.
Definition cbs (l : list oev) : list oev := filter is_cb l.
Definition count_ev (f : oev -> bool) (l : list oev) : N := N.of_nat (length (filter f l)).
Definition is_conn e := match e with OConnectCb => true | _ => false end.
Definition is_disc e := match e with ODisconnectCb => true | _ => false end.
Definition is_alive e := match e with OAliveCb => true | _ => false end.

(* connect at most once and first among the callbacks *)
Definition connect_first (l : list oev) : bool :=
  match cbs l with
  | [] => true
  | e :: r => is_conn e && (count_ev is_conn r =? 0)
  end.
(* disconnect at most once, only after connect; no alive after it *)
Fixpoint no_alive_after_disc (seen : bool) (l : list oev) : bool :=
  match l with
  | [] => true
  | e :: r => if is_disc e then no_alive_after_disc true r
              else if is_alive e then negb seen && no_alive_after_disc seen r
              else no_alive_after_disc seen r
  end.
Definition disconnect_ok (l : list oev) : bool :=
  (count_ev is_disc l <=? 1) && ((count_ev is_disc l =? 0) || (count_ev is_conn l =? 1)) &&
  no_alive_after_disc false l.

(* unsubscribe callback: every OBSERVED establishment of a subscription on ch (a false->true
   step of IsSubscribed(ch) between two consecutive command snapshots) that has ended got its
   callback, and there are never more callbacks than subscribe operations on ch *)
Fixpoint rises (prev : bool) (l : list bool) : N :=
  match l with
  | [] => 0
  | b :: r => (if negb prev && b then 1 else 0) + rises b r
  end.
Definition nth_issub (i : nat) (row : list snap) : bool :=
  match nth_error row i with Some x => sn_issub x | None => false end.
Definition sub_ops_on (c : ch) (cs : list cmd) : N :=
  N.of_nat (length (filter (fun x => match x with
                                   | CSpawn (OSubCli c' _) | CSpawn (OSubSrv c' _) => c' =? c
                                   | _ => false end) cs)).
Definition unsub_ok (c : case) (i : nat) (o : chobs) : bool :=
  let ob := cs_obs c in
  let n_cb := count_ev (fun e => match e with OUnsubCb c' => c' =? co_ch o | _ => false end) (ob_trace ob) in
  let r := rises false (map (nth_issub i) (ob_snaps ob)) in
  (n_cb <=? sub_ops_on (co_ch o) (cs_cmds c)) &&
  (negb (ob_settled ob) || (r <=? n_cb + (if co_issub o then 1 else 0))).
Fixpoint forall_i {A} (f : nat -> A -> bool) (i : nat) (l : list A) : bool :=
  match l with [] => true | x :: r => f i x && forall_i f (S i) r end.

(* node shutdown: once Shutdown has completed (settled) the connection is not connected *)
Definition has_shutdown (cs : list cmd) : bool :=
  existsb (fun x => match x with CSpawn OShutdown => true | _ => false end) cs.

Definition oracle (c : case) : bool :=
  let ob := cs_obs c in
  connect_first (ob_trace ob) && disconnect_ok (ob_trace ob) &&
  forall_i (unsub_ok c) 0 (ob_chs ob) &&
  (negb (has_shutdown (cs_cmds c) && ob_settled ob) || negb (ob_status ob =? 2)).

Definition run (cs : list case) := failing corr oracle cs.
