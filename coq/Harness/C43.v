(* Correspondence harness for C43: a real Client (protobuf reply path) issues
   history / presence / presence-stats commands against a real Node whose
   broker is the MemoryBroker of C17, after an arbitrary C17 history. *)
From Coq Require Import List NArith ZArith Bool Lia.
From Cfg Require Export Lib.Run Model.MemStream Model.StreamSpec Model.HistoryCmd.
From Cfg Require Import Proofs.MemStream Proofs.HistoryCmd.
Import ListNotations.
Open Scope N_scope.

Inductive cstep :=
| SBase (o : op) (x : out)                    (* a broker-level operation and its output *)
| SHist (ch : N) (since : option (N * N)) (limit : Z) (rev : bool)
        (full : out)                          (* full broker-level read taken just before *)
        (reply : creply)                      (* the client's history reply *)
| SPresence (node_res reply : list pentry)    (* node.Presence result, client reply *)
| SStats (node_res reply : N * N).            (* node.PresenceStats result, client reply *)

Record case := mkCase {
  c_now : N; c_meta : N;
  c_max : Z;                                  (* Config.HistoryMaxPublicationLimit *)
  c_steps : list cstep
}.

Definition full_filter : hfilter := mkFilter None (-1) false.

Definition pair_eqb (a b : N * N) : bool := (fst a =? fst b) && (snd a =? snd b).

Fixpoint corr_run (maxl : Z) (h : hub) (steps : list cstep) : bool :=
  match steps with
  | [] => true
  | SBase o x :: r => let '(h1, y) := step h o in out_eqb y x && corr_run maxl h1 r
  | SHist ch since limit rev full reply :: r =>
      let '(h1, y) := hub_get h ch full_filter 0 in
      let '(h2, z) := client_history maxl h1 ch since limit rev in
      out_eqb y full && creply_eqb z reply && corr_run maxl h2 r
  | SPresence n rp :: r => list_eqb pentry_eqb (presence_reply n) rp && corr_run maxl h r
  | SStats n rp :: r => pair_eqb (presence_stats_reply n) rp && corr_run maxl h r
  end.

Definition corr (c : case) : bool :=
  corr_run (c_max c) (hub_init (c_now c) (c_meta c)) (c_steps c).

(* the property, decided per command on what the implementation returned:
   the reply is the specified reply for the channel content observed just
   before (retained items, top, epoch), never longer than the configured
   limit; presence replies equal the node-level results *)
Definition rev0 (since : option (N * N)) (rev : bool) : bool :=
  match since with Some (o, _) => rev && (o =? 0) | None => false end.

Definition step_ok (maxl : Z) (s : cstep) : bool :=
  match s with
  | SBase _ _ => true
  | SHist ch since limit rev full reply =>
      match full with
      | OHist items top ep =>
          within_limit maxl reply &&
          (negb (rev0 since rev || filter_ok (mkFilter since (eff_limit maxl limit) rev)) ||
           creply_eqb reply (spec_client_history maxl items top ep since limit rev))
      | _ => false
      end
  | SPresence n rp => list_eqb pentry_eqb n rp
  | SStats n rp => pair_eqb n rp
  end.

Definition oracle (c : case) : bool := forallb (step_ok (c_max c)) (c_steps c).

Definition StepSpec (maxl : Z) (s : cstep) : Prop :=
  match s with
  | SBase _ _ => True
  | SHist ch since limit rev full reply =>
      exists items top ep, full = OHist items top ep /\
        within_limit maxl reply = true /\
        (rev0 since rev = true \/ filter_ok (mkFilter since (eff_limit maxl limit) rev) = true ->
         reply = spec_client_history maxl items top ep since limit rev)
  | SPresence n rp => rp = n
  | SStats n rp => rp = n
  end.

Lemma pentry_eqb_eq : forall a b, pentry_eqb a b = true <-> a = b.
Proof.
  intros [a1 a2 a3 a4] [b1 b2 b3 b4]. unfold pentry_eqb. cbn. split.
  - intros H. f_equal; lia.
  - intros X; inversion X; subst. lia.
Qed.

Lemma step_ok_sound : forall maxl s, step_ok maxl s = true <-> StepSpec maxl s.
Proof.
  intros maxl s. destruct s as [o x|ch since limit rv full reply|n rp|n rp]; cbn [step_ok StepSpec].
  - tauto.
  - destruct full as [| items top ep | |]; try (split; [discriminate|intros (i & t & e & X & _); discriminate]).
    rewrite andb_true_iff, orb_true_iff, negb_true_iff, creply_eqb_eq. split.
    + intros [W H]. exists items, top, ep. split; auto. split; auto.
      intros D. destruct H as [H|H]; auto.
      rewrite orb_false_iff in H. destruct H as [H1 H2]. destruct D; congruence.
    + intros (i & t & e & X & W & H). inversion X; subst. split; auto.
      destruct (rev0 since rv || filter_ok (mkFilter since (eff_limit maxl limit) rv)) eqn:E.
      * right. apply H. apply orb_true_iff in E. exact E.
      * left. reflexivity.
  - rewrite (list_eqb_eq pentry_eqb pentry_eqb_eq). split; congruence.
  - unfold pair_eqb. destruct n, rp. cbn [fst snd]. split.
    + intros H. f_equal; lia.
    + intros X; inversion X; subst. lia.
Qed.

Lemma oracle_sound : forall c, oracle c = true <-> Forall (StepSpec (c_max c)) (c_steps c).
Proof.
  intros c. unfold oracle. rewrite forallb_forall, Forall_forall.
  split; intros H x Hx; apply step_ok_sound; auto.
Qed.

Definition run (cs : list case) := failing corr oracle cs.
