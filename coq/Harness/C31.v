(* Correspondence harness for C31 (WebSocket handshake and close codes).
   Three kinds of cases, all produced by running the real code of /repo:
   - KHandshake: one call of websocket.Upgrader.Upgrade on a generated request/config;
   - KCodes: a batch of consecutive close codes, each sent as a close frame to a fresh server Conn;
   - KSession: a sequence of close-related events on one server Conn wrapped in the real
     websocketTransport of handler_websocket.go (WriteControl / transport.Close / peer close frame). *)
From Coq Require Import List NArith Bool.
From Cfg Require Export Lib.Run Gen.WsConst Model.WsUtf8 Model.WsHandshake Model.WsHandshakeSpec Model.WsClose Model.WsCloseSpec.
Import ListNotations.
Open Scope N_scope.

Inductive case :=
| KHandshake (u : config) (r : request)
             (urlhost : option bytes)      (* net/url: host of url.Parse(Origin[0]), None on error *)
             (lib_out : bytes)             (* crypto/sha1 + encoding/base64 on (first key ++ RFC GUID), computed by the driver *)
             (o_panic : bool) (o_status : N) (o_accept o_sub o_retsub : bytes) (o_ext : bool)
| KCodes (lo : N) (o : list N)             (* per code lo, lo+1, ...: 1 accepted (CloseError code + echo), 0 protocol error + 1002 frame, 2 other *)
| KSession (es : list event) (o : list obs) (o_code : N) (o_incoming : bool).

Fixpoint list_eqb {A} (eqb : A -> A -> bool) (a b : list A) : bool :=
  match a, b with
  | [], [] => true
  | x :: a', y :: b' => eqb x y && list_eqb eqb a' b'
  | _, _ => false
  end.

Definition beqb := WsHandshake.bytes_eqb.

(* ---------------------------------------------------------------- handshake *)

Definition lib_of (r : request) (lib_out : bytes) : bytes -> bytes :=
  fun x => if beqb x (hd [] (r_key r) ++ rfc_guid) then lib_out else [].

Definition corr_handshake u r urlhost lib_out (o_panic : bool) o_status o_accept o_sub o_retsub (o_ext : bool) : bool :=
  match upgrade (fun _ => urlhost) u r with
  | Panic => o_panic
  | Reject s => negb o_panic && (o_status =? s)
  | Accept (Some k) sub c =>
      negb o_panic && (o_status =? 101) && beqb o_accept (accept_key (lib_of r lib_out) k)
      && beqb o_sub sub && beqb o_retsub sub && Bool.eqb o_ext c
  | Accept None sub c =>
      negb o_panic && (o_status =? 200) && beqb o_accept [] && beqb o_sub sub && beqb o_retsub sub && Bool.eqb o_ext c
  end.

(* The property on the observed response:
   no panic; accepted iff valid upgrade + origin (both readings, see WsHandshakeSpec);
   accept key = RFC formula; negotiated subprotocol / compression were offered. *)
Definition oracle_handshake u r urlhost lib_out (o_panic : bool) o_status o_accept o_sub (o_ext : bool) : bool :=
  let acc := (o_status =? 101) || (o_status =? 200) in
  let ok_origin := origin_ok (fun _ => urlhost) u r in
  negb o_panic
  && (if acc then valid_upgrade_rx u r && ok_origin else true)
  && (if valid_upgrade u r && ok_origin && config_sane u then acc else true)
  && (if acc then
        (if r_major r =? 1 then (o_status =? 101) && beqb o_accept lib_out else (o_status =? 200))
        && (match o_sub with
            | [] => true
            | _ => match u_subprotocols u with
                   | Some protos => mem_bytes o_sub (offered_protocols r) && mem_bytes o_sub protos
                   | None => true        (* application supplied value, not negotiated by the Upgrader *)
                   end
            end)
        && (if o_ext then u_compression u && mem_bytes s_pmd (offered_extensions r) else true)
      else (400 <=? o_status) && (o_status <=? 599)).

(* ---------------------------------------------------------------- close codes *)

Fixpoint codes_from (lo : N) (n : nat) : list N :=
  match n with O => [] | S k => lo :: codes_from (lo + 1) k end.

Definition corr_codes (lo : N) (o : list N) : bool :=
  list_eqb N.eqb (map (fun c => if is_valid_received_close_code c then 1 else 0) (codes_from lo (length o))) o.

Definition oracle_codes (lo : N) (o : list N) : bool :=
  forallb (fun '(c, v) =>
             (v <? 2)
             && (if rfc_close_forbidden c then v =? 0 else true)
             && (if rfc_close_defined c then v =? 1 else true))
          (combine (codes_from lo (length o)) o).

(* ---------------------------------------------------------------- sessions *)

Definition wres_eqb (a b : wres) : bool :=
  match a, b with
  | WOk, WOk | WTooLong, WTooLong | WCloseSent, WCloseSent | WNetErr, WNetErr => true
  | _, _ => false
  end.

Definition frames_eqb := list_eqb beqb.

(* protocol-error close frames: only the status code is compared (the reason is free text) *)
Definition obs_eqb (m o : obs) : bool :=
  match m, o with
  | OWrite f r, OWrite f' r' => frames_eqb f f' && wres_eqb r r'
  | OTransport f, OTransport f' => frames_eqb f f'
  | ORecv f (RClose c t), ORecv f' (RClose c' t') => frames_eqb f f' && (c =? c') && beqb t t'
  | ORecv f RProtoErr, ORecv f' RProtoErr => frames_eqb (map (firstn 2) f) (map (firstn 2) f')
  | ORecv f RNone, ORecv f' RNone => frames_eqb f f'
  | _, _ => false
  end.

Definition corr_session (es : list event) (o : list obs) (o_code : N) (o_incoming : bool) : bool :=
  let '(st, os) := run_events c_init es in
  list_eqb obs_eqb os o && (fst (close_code st) =? o_code) && Bool.eqb (snd (close_code st)) o_incoming.

Definition oracle_session (es : list event) (o : list obs) (o_code : N) (o_incoming : bool) : bool :=
  session_ok es o o_code o_incoming.

Definition corr (c : case) : bool :=
  match c with
  | KHandshake u r uh lib p s a sub rsub e => corr_handshake u r uh lib p s a sub rsub e
  | KCodes lo o => corr_codes lo o
  | KSession es o c i => corr_session es o c i
  end.

Definition oracle (c : case) : bool :=
  match c with
  | KHandshake u r uh lib p s a sub rsub e => oracle_handshake u r uh lib p s a sub e
  | KCodes lo o => oracle_codes lo o
  | KSession es o c i => oracle_session es o c i
  end.

Definition run (cs : list case) := failing corr oracle cs.
