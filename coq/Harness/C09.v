(* Correspondence harness for C09: one case = connection configuration, the labels
   (frames as decoded by the real stream decoder, server pings, callback completions)
   fed to a real client, and what was observed after each label. *)
From Coq Require Import List NArith Bool Arith.
From Cfg Require Export Lib.Run Model.Dispatch Model.DispatchSpec.
Import ListNotations.
Open Scope N_scope.

Record case := mkCase {
  k_cfg : cfg;
  k_labels : list label;
  k_quiescent : bool;           (* every callback handed to the application was completed *)
  o_steps : list (list out)     (* observed per label: handler invocations, replies, close *)
}.

(* handler invocations, then replies, then close: the order in which transport writes
   interleave with handler invocations is not observable when replies go through the
   writer goroutine, so model and implementation are compared on the three projections *)
Definition canon (l : list out) : list out :=
  filter (fun o => match o with OHandler _ _ => true | _ => false end) l ++
  filter (fun o => match o with OReply _ _ => true | _ => false end) l ++
  filter (fun o => match o with OClose _ => true | _ => false end) l.

Fixpoint steps_eqb (a b : list (list out)) : bool :=
  match a, b with
  | [], [] => true
  | x :: a', y :: b' => outs_eqb (canon (vis x)) (canon y) && steps_eqb a' b'
  | _, _ => false
  end.

Definition corr (c : case) : bool :=
  match exec (k_cfg c) init (k_labels c) with
  | None => false                      (* the generator never produces a blocked label *)
  | Some (_, os) => steps_eqb os (o_steps c)
  end.

(* the property on the observed behaviour *)
Definition oracle (c : case) : bool :=
  steps_ok ost0 (k_labels c) (o_steps c) &&
  atmost_ok (k_labels c) (o_steps c) &&
  exact_ok (k_quiescent c) (k_labels c) (o_steps c) &&
  frames_ok false (k_labels c) (o_steps c).

Definition run (cs : list case) := failing corr oracle cs.
