(* Correspondence harness for C15: one case = a filter tree [c_f], a second tree
   [c_g] (a structural copy or a small mutation of [c_f]), a tag map, and what the
   real internal/filter package (and udecimal / the vtproto marshaller behind
   it) did with them. *)
From Coq Require Import List NArith ZArith Bool.
From Cfg Require Export Lib.Run Model.Decimal Model.Filter Model.FilterSpec.
Import ListNotations.
Open Scope N_scope.

Record case := mkCase {
  c_f : node; c_g : node; c_tags : tagmap;       (* inputs *)
  o_valid : bool;                  (* Validate(f) == nil *)
  o_match : option bool;           (* Match(f, tags): Some b, or None = error returned *)
  o_panic : bool;                  (* any of the calls panicked *)
  o_nums : list (bytes * bool);    (* udecimal.Parse(s) err == nil, for the numerals of the case *)
  o_marshal : bytes;               (* f.MarshalVT() *)
  o_hash_pre : bool;               (* Hash(f) == sha256(f.MarshalVT()) *)
  o_hash_copy : bool;              (* Hash(f) == Hash(independently built copy of f) *)
  o_hash_g : bool                  (* Hash(f) == Hash(g) *)
}.

Definition opt_bool_eqb (a b : option bool) : bool :=
  match a, b with
  | Some x, Some y => Bool.eqb x y
  | None, None => true
  | _, _ => false
  end.

Definition is_some {A} (o : option A) : bool := match o with Some _ => true | None => false end.

(* model = implementation, on the observables *)
Definition corr (c : case) : bool :=
  negb (o_panic c) &&
  Bool.eqb (validate (c_f c)) (o_valid c) &&
  opt_bool_eqb (matchf (c_f c) (c_tags c)) (o_match c) &&
  forallb (fun sa => Bool.eqb (is_some (dec_parse (fst sa))) (snd sa)) (o_nums c) &&
  bytes_eqb (marshal (c_f c)) (o_marshal c) &&
  o_hash_pre c &&
  Bool.eqb (bytes_eqb (marshal (c_f c)) (marshal (c_g c))) (o_hash_g c).

(* acceptance by the real engine as observed in this case (the property is
   relative to "numerals the engine accepts"); strings not in the table fall
   back to the grammar of the specification *)
Fixpoint acc_obs (tbl : list (bytes * bool)) (s : bytes) : bool :=
  match tbl with
  | [] => numeral_ok s
  | (t, a) :: tbl' => if bytes_eqb s t then a else acc_obs tbl' s
  end.

(* the property, decided on what the implementation did *)
Definition oracle (c : case) : bool :=
  negb (o_panic c) &&
  Bool.eqb (o_valid c) (wf_b (c_f c)) &&
  (if o_valid c
   then opt_bool_eqb (o_match c) (Some (denote_g (acc_obs (o_nums c)) (c_f c) (c_tags c)))
   else true) &&
  o_hash_copy c &&
  (if node_eqb (c_f c) (c_g c) then o_hash_g c else true).

Definition run (cs : list case) := failing corr oracle cs.
