(* Correspondence harness for C21: a channel state built by publishes/removes,
   then paginated through the real ReadState with one page size and direction
   until the cursor is empty, plus single-key reads. *)
From Coq Require Import List NArith ZArith Bool.
From Cfg Require Export Lib.Run Model.MapHub Model.MapPaging.
Import ListNotations.
Open Scope N_scope.

Record case := mkCase {
  c_cfg : rawcfg;
  c_setup : list op;                       (* publishes / removes on channel 0 *)
  c_final : list (key * (Z * N));          (* the resulting entries: key -> (score, payload id) *)
  c_asc : bool; c_limit : Z;
  o_pages : list (list pub * list N);      (* observed pages: publications and returned cursor *)
  c_probes : list key; o_probes : list (list pub) }.

Definition pub_eq_dec : forall a b : pub, {a = b} + {a <> b}.
Proof. repeat decide equality. Defined.
Definition pages_eq_dec : forall a b : list (list pub * list N), {a = b} + {a <> b}.
Proof. repeat decide equality. Defined.
Definition probes_eq_dec : forall a b : list (list pub), {a = b} + {a <> b}.
Proof. repeat decide equality. Defined.

(* the model paginates through its own read_state (cache included) *)
Fixpoint model_pages (fuel : nat) (cfgs : list rawcfg) (h : hub) (cursor : list N) (limit : Z) (asc : bool)
  : list (list pub * list N) :=
  match fuel with
  | O => []
  | S f =>
      match read_state cfgs h 0 None cursor limit [] asc with
      | (h', StOk pubs _ cur) => (pubs, cur) :: (if is_empty cur then [] else model_pages f cfgs h' cur limit asc)
      | _ => []
      end
  end.

Definition model_probe (cfgs : list rawcfg) (h : hub) (k : key) : list pub :=
  match read_state cfgs h 0 None [] 1%Z k false with
  | (_, StOk pubs _ _) => pubs
  | _ => []
  end.

Definition corr (c : case) : bool :=
  let cfgs := [c_cfg c] in
  let '(h, _) := run cfgs hub0 (c_setup c) in
  (if pages_eq_dec (model_pages (length (c_final c) + 2) cfgs h [] (c_limit c) (c_asc c)) (o_pages c) then true else false) &&
  (if probes_eq_dec (map (model_probe cfgs h) (c_probes c)) (o_probes c) then true else false).

(* ---- the property, decided on the observed pages ---- *)
Definition triple (p : pub) : key * (Z * N) := (p_key p, (p_score p, p_data p)).
Definition triple_eqb (a b : key * (Z * N)) : bool :=
  key_eqb (fst a) (fst b) && (fst (snd a) =? fst (snd b))%Z && (snd (snd a) =? snd (snd b)).

Definition ceil_div (n l : nat) : nat := ((n + l - 1) / l)%nat.

Definition oracle (c : case) : bool :=
  let ordered := rc_ordered (c_cfg c) in
  let pages := map fst (o_pages c) in
  let all := concat pages in
  let n := length (c_final c) in
  (* every stored entry exactly once, in the channel's sort order *)
  chain_b (before_b ordered (c_asc c)) (map (fun p => (p_score p, p_key p)) all) &&
  Nat.eqb (length all) n &&
  forallb (fun t => existsb (fun p => triple_eqb (triple p) t) all) (c_final c) &&
  forallb (fun p => negb (p_removed p)) all &&
  (* progress and page count *)
  (if (0 <? c_limit c)%Z then
     let l := Z.to_nat (c_limit c) in
     forallb (fun pg => Nat.eqb (length pg) l) (removelast pages) &&
     Nat.eqb (length pages) (if Nat.eqb n 0 then 1 else ceil_div n l) &&
     (Nat.eqb n 0 || forallb (fun pg => negb (Nat.eqb (length pg) 0)) pages)
   else Nat.eqb (length pages) 1) &&
  forallb (fun pc => negb (is_empty (snd pc))) (removelast (o_pages c)) &&
  is_empty (snd (last (o_pages c) ([], []))) &&
  (* single-key reads return exactly the stored entry *)
  Nat.eqb (length (c_probes c)) (length (o_probes c)) &&
  forallb (fun kp =>
             match find (fun t => key_eqb (fst t) (fst kp)) (c_final c), snd kp with
             | Some t, [p] => triple_eqb (triple p) t && negb (p_removed p)
             | None, [] => true
             | _, _ => false
             end) (combine (c_probes c) (o_probes c)).

Definition run (cs : list case) := failing corr oracle cs.
