(* Correspondence harness for C40 (deferred jobs).  One case = a run of the real dissolve.Dissolver
   with [nw] workers under deterministic control (every job blocks on entry until the driver decides
   its outcome): the event log in real-time order.
   corr   : the log is a run of the transition system of Model/Dissolve.v (which worker took which job,
            and when, is filled in: FIFO takes by free workers);
   oracle : the property decided on the log alone. *)
From Coq Require Import List NArith ZArith Bool Arith.
From Cfg Require Export Lib.Run Model.RingQueue Model.Dissolve.
Import ListNotations.

Inductive dvev :=
| DvSubmit (j : N) (ok : bool)      (* Submit returned nil (true) / an error (false) *)
| DvStart (j : N) (after : bool)    (* job j entered; had Close() already returned? *)
| DvFinish (j : N) (ok : bool)      (* the driver lets job j return nil / an error *)
| DvClose                           (* Close() returned *)
| DvPanic.                          (* a call into the package panicked *)

Record case := mkCase { c_nw : nat; c_evs : list dvev; c_drained : bool }.

Definition is_free (p : wpc) : bool :=
  match p with WIdle | WCondWait | WRemove | WCheckClosed => true | _ => false end.

(* let worker w run until it holds a job (Some) or cannot get one (None) *)
Fixpoint take (fuel : nat) (s : dst) (w : nat) : option dst :=
  match fuel with
  | 0 => None
  | S f =>
      match getw (d_w s) w with
      | Some (WHold _) => Some s
      | Some WCondWait => match dstep s (LWWake w) with DNext s1 => take f s1 w | _ => None end
      | Some WIdle | Some WRemove | Some WCheckClosed =>
          match dstep s (LWStep w) with DNext s1 => take f s1 w | _ => None end
      | _ => None
      end
  end.

Fixpoint find_w (ws : list wpc) (f : wpc -> bool) (i : nat) : option nat :=
  match ws with
  | [] => None
  | p :: ws' => if f p then Some i else find_w ws' f (S i)
  end.

Definition holds_job (j : N) (p : wpc) : bool :=
  match p with WHold x => N.eqb (it_id x) j | _ => false end.
Definition runs_job (j : N) (p : wpc) : bool :=
  match p with WRunning x => N.eqb (it_id x) j | _ => false end.

(* make some worker hold job j: free workers take from the queue (FIFO) until j has been taken *)
Fixpoint ensure_held (n : nat) (s : dst) (j : N) : option (dst * nat) :=
  match find_w (d_w s) (holds_job j) 0 with
  | Some w => Some (s, w)
  | None =>
      match n with
      | 0 => None
      | S n' =>
          match find_w (d_w s) is_free 0 with
          | Some w => match take 12 s w with
                      | Some s1 => ensure_held n' s1 j
                      | None => None
                      end
          | None => None
          end
      end
  end.

Fixpoint late_jobs (evs : list dvev) : list N :=
  match evs with
  | [] => []
  | DvStart j true :: evs' => j :: late_jobs evs'
  | _ :: evs' => late_jobs evs'
  end.

Fixpoint ensure_all (n : nat) (s : dst) (js : list N) : option dst :=
  match js with
  | [] => Some s
  | j :: js' => match ensure_held n s j with
                | Some (s1, _) => ensure_all n s1 js'
                | None => None
                end
  end.

Fixpoint dv_run (nw : nat) (s : dst) (evs : list dvev) : bool :=
  match evs with
  | [] => true
  | e :: evs' =>
      match e with
      | DvSubmit j ok =>
          match dstep s (LSubmit (mkJob j)) with
          | DNext s1 => Bool.eqb (job_in (mkJob j) (d_accepted s1)) ok && dv_run nw s1 evs'
          | _ => false
          end
      | DvStart j after =>
          match ensure_held nw s j with
          | Some (s1, w) =>
              Bool.eqb (dclosed (d_q s1)) after &&
              match dstep s1 (LWStep w) with DNext s2 => dv_run nw s2 evs' | _ => false end
          | None => false
          end
      | DvFinish j ok =>
          match find_w (d_w s) (runs_job j) 0 with
          | Some w =>
              match dstep s (LWFinish w ok) with
              | DNext s1 =>
                  if ok then dv_run nw s1 evs'
                  else match dstep s1 (LWStep w) with DNext s2 => dv_run nw s2 evs' | _ => false end
              | _ => false
              end
          | None => false
          end
      | DvClose =>
          (* runs that start after Close are of jobs removed from the queue before it *)
          match ensure_all nw s (late_jobs evs') with
          | Some s1 => match dstep s1 LDClose with DNext s2 => dv_run nw s2 evs' | _ => false end
          | None => false
          end
      | DvPanic => false
      end
  end.

Definition corr (c : case) : bool := dv_run (c_nw c) (dinitial 2 (c_nw c)) (c_evs c).

(* ---- the property on the log ---- *)
Definition nmem (j : N) (l : list N) : bool := existsb (N.eqb j) l.
Definition nrem (j : N) (l : list N) : list N := filter (fun x => negb (N.eqb j x)) l.

Record ost := mkO { o_acc : list N; o_rej : list N; o_succ : list N; o_run : list N;
                    o_closed : bool; o_late : list N }.

Fixpoint o_walk (nw : nat) (o : ost) (evs : list dvev) : bool * ost :=
  match evs with
  | [] => (true, o)
  | e :: evs' =>
      match e with
      | DvSubmit j ok =>
          (* accepted exactly when the queue is not closed yet *)
          if negb (nmem j (o_acc o)) && negb (nmem j (o_rej o)) && Bool.eqb ok (negb (o_closed o)) then
            o_walk nw (if ok then mkO (j :: o_acc o) (o_rej o) (o_succ o) (o_run o) (o_closed o) (o_late o)
                       else mkO (o_acc o) (j :: o_rej o) (o_succ o) (o_run o) (o_closed o) (o_late o)) evs'
          else (false, o)
      | DvStart j after =>
          (* only accepted jobs run, never after their success, never twice at once; after Close only a job
             that was already in a worker's hands, i.e. at most one per worker and never the same job twice *)
          if nmem j (o_acc o) && negb (nmem j (o_succ o)) && negb (nmem j (o_run o)) &&
             Bool.eqb after (o_closed o) &&
             (negb (o_closed o) || (negb (nmem j (o_late o)) && (length (o_late o) <? nw))) then
            o_walk nw (mkO (o_acc o) (o_rej o) (o_succ o) (j :: o_run o) (o_closed o)
                           (if o_closed o then j :: o_late o else o_late o)) evs'
          else (false, o)
      | DvFinish j ok =>
          if nmem j (o_run o) then
            o_walk nw (mkO (o_acc o) (o_rej o) (if ok then j :: o_succ o else o_succ o) (nrem j (o_run o))
                           (o_closed o) (o_late o)) evs'
          else (false, o)
      | DvClose => o_walk nw (mkO (o_acc o) (o_rej o) (o_succ o) (o_run o) true (o_late o)) evs'
      | DvPanic => (false, o)
      end
  end.

Definition oracle (c : case) : bool :=
  let '(ok, o) := o_walk (c_nw c) (mkO [] [] [] [] false []) (c_evs c) in
  ok &&
  (* never closed and the driver ran the system to rest: every accepted job was executed until success *)
  (o_closed o || negb (c_drained c) || forallb (fun j => nmem j (o_succ o)) (o_acc o)).

Definition run (cs : list case) := failing corr oracle cs.
