#!/usr/bin/env python3
"""Core of /verif/bin/check: build the Coq cone of a property, run the Go driver against /repo's
current working tree (drivers injected with `go test -overlay`), evaluate model + oracle inside Coq
on the implementation's cases, decide the verdict, write evidence."""
import fcntl, glob, hashlib, json, os, re, shutil, subprocess, sys, time
from concurrent.futures import ThreadPoolExecutor

VERIF = os.path.dirname(os.path.dirname(os.path.abspath(__file__)))
REPO = os.environ.get("VERIF_REPO", "/repo")
COQ = os.path.join(VERIF, "coq")
BUILD = os.path.join(VERIF, ".build")
GOENV = dict(os.environ, GOFLAGS="-mod=mod", GOPROXY="off", CGO_ENABLED=os.environ.get("CGO_ENABLED", "0"))
SHARD = 400
FORBIDDEN = re.compile(r"\b(Admitted|admit|Axiom|Axioms|Parameter|Parameters|Conjecture|Conjectures|Admit Obligations)\b|Unset\s+Guard|bypass_check|type-in-type|impredicative-set|Unset\s+Positivity|Unset\s+Universe")
STD_AXIOMS_OK = (
    "functional_extensionality_dep", "proof_irrelevance", "classic", "JMeq_eq", "Eqdep.Eq_rect_eq.eq_rect_eq",
    "eq_rect_eq", "propositional_extensionality", "constructive_indefinite_description", "sig_forall_dec", "sig_not_dec",
)


PRIMITIVE_PREFIXES = ("Uint63.", "PrimInt63.", "Coq.Numbers.Cyclic.Int63.", "PrimFloat.", "PArray.", "Sint63.")


def log(*a):
    print(*a, file=sys.stderr, flush=True)


class MultiLock:
    """Locks every file of a proof cone (sorted order => no deadlock) so checks with disjoint cones build in parallel."""
    def __init__(self, names):
        self.locks = [Lock(n) for n in sorted(set(names))]

    def __enter__(self):
        for l in self.locks:
            l.__enter__()
        return self

    def __exit__(self, *a):
        for l in reversed(self.locks):
            l.__exit__(*a)


class Lock:
    def __init__(self, name):
        os.makedirs(os.path.join(BUILD, "locks"), exist_ok=True)
        self.path = os.path.join(BUILD, "locks", name.replace("/", "__") + ".lock")

    def __enter__(self):
        self.f = open(self.path, "w")
        fcntl.flock(self.f, fcntl.LOCK_EX)
        return self

    def __exit__(self, *a):
        fcntl.flock(self.f, fcntl.LOCK_UN)
        self.f.close()


def sh(cmd, cwd=None, env=None, timeout=None, stdin=None):
    p = subprocess.run(cmd, cwd=cwd, env=env, timeout=timeout, input=stdin, stdout=subprocess.PIPE,
                       stderr=subprocess.STDOUT, text=True, shell=isinstance(cmd, str))
    return p.returncode, p.stdout


# ----------------------------------------------------------------------------- Coq side

def strip_comments(src):
    out, depth, i = [], 0, 0
    while i < len(src):
        if src.startswith("(*", i):
            depth += 1; i += 2
        elif src.startswith("*)", i) and depth:
            depth -= 1; i += 2
        else:
            if not depth:
                out.append(src[i])
            i += 1
    return "".join(out)


def all_v_files():
    fs = []
    for d in ("Lib", "Model", "Proofs", "Props", "Harness", "Gen"):
        fs += sorted(glob.glob(os.path.join(COQ, d, "**", "*.v"), recursive=True))
    return [os.path.relpath(f, COQ) for f in fs]


def write_coqproject():
    files = all_v_files()
    txt = "-Q . Cfg\n-arg -w -arg -notation-overridden,-deprecated-hint-without-locality,-deprecated-instance-without-locality\n" + "\n".join(files) + "\n"
    p = os.path.join(COQ, "_CoqProject")
    old = open(p).read() if os.path.exists(p) else ""
    if old != txt:
        open(p, "w").write(txt)
        rc, out = sh(["coq_makefile", "-f", "_CoqProject", "-o", "Makefile"], cwd=COQ)
        if rc != 0:
            raise RuntimeError("coq_makefile failed:\n" + out)
    elif not os.path.exists(os.path.join(COQ, "Makefile")):
        sh(["coq_makefile", "-f", "_CoqProject", "-o", "Makefile"], cwd=COQ)


def cone_of(mods):
    """Transitive closure of our own .v files needed by the given modules (e.g. ['Props.C39','Harness.C39'])."""
    seen, todo = [], [m.replace(".", "/") + ".v" for m in mods]
    while todo:
        f = todo.pop()
        if f in seen or not os.path.exists(os.path.join(COQ, f)):
            continue
        seen.append(f)
        src = strip_comments(open(os.path.join(COQ, f)).read())
        for m in re.finditer(r"From\s+Cfg\s+Require\s+(?:Import\s+|Export\s+)?(.*?)\.(?:\s|$)", src, re.S):
            for name in m.group(1).split():
                todo.append(name.replace(".", "/") + ".v")
        for m in re.finditer(r"(?<!Cfg\s)Require\s+(?:Import\s+|Export\s+)?(.*?)\.(?:\s|$)", src, re.S):
            for name in m.group(1).split():
                if name.startswith("Cfg."):
                    todo.append(name[len("Cfg."):].replace(".", "/") + ".v")
    return sorted(seen)


def count_obligations(files):
    n = 0
    names = []
    for f in files:
        src = strip_comments(open(os.path.join(COQ, f)).read())
        for m in re.finditer(r"^\s*(?:Local\s+|Global\s+|#\[[^\]]*\]\s*)*(Theorem|Lemma|Corollary|Fact|Proposition|Remark|Example)\s+([\w']+)", src, re.M):
            n += 1
            names.append(f + ":" + m.group(2))
    return n, names


def forbidden_scan(files):
    bad = []
    for f in files:
        src = strip_comments(open(os.path.join(COQ, f)).read())
        for ln, line in enumerate(src.split("\n"), 1):
            if FORBIDDEN.search(line):
                bad.append("%s:%d: %s" % (f, ln, line.strip()))
            if re.match(r"^\s*(Variable|Variables|Hypothesis|Hypotheses|Context)\b", line):
                # allowed only inside a Section: checked coarsely by counting Section/End before this line
                pre = "\n".join(src.split("\n")[:ln])
                if len(re.findall(r"^\s*Section\s", pre, re.M)) <= len(re.findall(r"^\s*End\s", pre, re.M)):
                    bad.append("%s:%d: %s (outside a Section)" % (f, ln, line.strip()))
    return bad


def run_translators(spec):
    msgs = []
    for tr in spec.get("translators", []):
        rc, out = sh([sys.executable, os.path.join(VERIF, "translators", tr), REPO, os.path.join(COQ, "Gen")], timeout=300)
        if rc != 0:
            msgs.append("translator %s failed:\n%s" % (tr, out[-2000:]))
    return msgs


def coq_build(spec, timeout=2400):
    """Build the cone of the property. Returns dict(ok, log, cone, obligations, failed_file)."""
    mods = [spec["props"], spec["harness"]] + spec.get("extra_modules", [])
    with Lock("coqproject"):
        write_coqproject()
    cone = cone_of(mods)
    gen = ["Gen/" + os.path.basename(g) for g in spec.get("gen_outputs", [])]
    with MultiLock(["cone:" + f for f in cone + gen if not f.startswith("Lib/")] + ["translators:" + t for t in spec.get("translators", [])]):
        tmsgs = run_translators(spec)
        with Lock("coqproject"):
            write_coqproject()
        cone = cone_of(mods)
        targets = [m.replace(".", "/") + ".vo" for m in mods]
        t0 = time.time()
        rc, out = sh(["make", "-j%d" % (os.cpu_count() or 4), "-k"] + targets, cwd=COQ, timeout=timeout)
        dt = time.time() - t0
    failed = re.findall(r'File "\./([^"]+)", line (\d+)[^\n]*\n(Error[^\n]*(?:\n[^\n]+){0,4})', out)
    nobl, names = count_obligations(cone)
    bad = forbidden_scan(cone)
    ok = (rc == 0) and not bad and not tmsgs
    return dict(ok=ok, rc=rc, log=out[-6000:], cone=cone, obligations=nobl, names=names, forbidden=bad,
                translator_errors=tmsgs, failed=[dict(file=a, line=int(b), msg=c) for a, b, c in failed], wall=dt)


def print_assumptions(spec, workdir):
    """Re-ask the kernel for the axioms each property theorem depends on."""
    thms = spec.get("theorems", [])
    src = "From Cfg Require Import %s.\n" % spec["props"] + "".join(
        'Print Assumptions %s.\n' % t for t in thms)
    src_lines = ["From Cfg Require Import %s." % spec["props"]]
    for t in thms:
        src_lines.append('Goal True. idtac "@@THM %s". exact I. Qed.' % t)
        src_lines.append("Print Assumptions %s." % t)
    p = os.path.join(workdir, "assum_%s.v" % spec["id"])
    open(p, "w").write("\n".join(src_lines) + "\n")
    rc, out = sh(["coqc", "-Q", COQ, "Cfg", p], cwd=workdir, timeout=600)
    res = {}
    cur = None
    for line in out.split("\n"):
        m = re.match(r"@@THM (\S+)", line)
        if m:
            cur = m.group(1); res[cur] = []
        elif cur is not None and line.strip():
            res[cur].append(line.rstrip())
    status = {}
    for t in thms:
        lines = res.get(t)
        if lines is None:
            status[t] = dict(ok=False, axioms=["<theorem missing or failed: %s>" % out[-300:]])
            continue
        txt = " ".join(lines)
        if "Closed under the global context" in txt:
            status[t] = dict(ok=True, axioms=[])
        else:
            # "Axioms:" then entries "name : type" where long names put " : type" on the next line
            # entries start in column 0: "name : type" or, for long names, "name" with " : type" on the next line
            axs = [l.split()[0] for l in lines if l and not l[0].isspace() and not l.startswith(("Axioms:", "Section Variables:", "Fetching", "Loading"))]
            def allowed(a):
                return any(a.endswith(s_) or s_ in a for s_ in STD_AXIOMS_OK) or a.startswith(PRIMITIVE_PREFIXES)
            okax = bool(axs) and all(allowed(a) for a in axs)
            status[t] = dict(ok=okax, axioms=axs or lines)
    return rc == 0 and all(s["ok"] for s in status.values()), status


# ----------------------------------------------------------------------------- Go side

def go_pkg_name(pkg):
    rc, out = sh(["go", "list", "-f", "{{.Name}}", pkg], cwd=REPO, env=GOENV, timeout=300)
    if rc != 0:
        raise RuntimeError("go list failed: " + out)
    return out.strip().split("\n")[-1]


def build_driver(spec, workdir):
    """go test -c with the driver files overlaid into the package, against /repo's current tree."""
    pkg = spec["pkg"]
    pkgpath = os.path.normpath(os.path.join(REPO, pkg))
    name = go_pkg_name(pkg)
    helper = open(os.path.join(VERIF, "harness", "helper", "zz_verif_helper_test.go.tmpl")).read().replace("__PKG__", name)
    hp = os.path.join(workdir, "zz_verif_helper_test.go")
    open(hp, "w").write(helper)
    repl = {os.path.join(pkgpath, "zz_verif_helper_test.go"): hp}
    for d in spec["drivers"]:
        src = os.path.join(VERIF, "harness", "inpkg", spec["pkgdir"], d)
        dst = os.path.join(pkgpath, "zz_" + os.path.basename(d))
        if os.path.exists(dst):
            raise RuntimeError("overlay target exists in /repo: " + dst)
        repl[dst] = src
    for dst, src in spec.get("overlay_extra", {}).items():   # e.g. non-test add-only files
        repl[os.path.join(REPO, dst)] = os.path.join(VERIF, src)
    ov = os.path.join(workdir, "overlay.json")
    json.dump({"Replace": repl}, open(ov, "w"), indent=1)
    binp = os.path.join(workdir, "driver.test")
    tags = spec.get("tags", "verif")
    cmd = ["go", "test", "-c", "-vet=off", "-tags", tags, "-overlay", ov, "-o", binp, pkg]
    if spec.get("race"):
        cmd.insert(3, "-race")
    t0 = time.time()
    rc, out = sh(cmd, cwd=REPO, env=GOENV, timeout=1800)
    return rc == 0, out, binp, time.time() - t0, " ".join(cmd)


def run_driver(spec, binp, outdir, n, seed, tier, only=None, timeout=3000):
    shutil.rmtree(outdir, ignore_errors=True)
    os.makedirs(outdir)
    env = dict(GOENV, VERIF_OUT=outdir, VERIF_N=str(n), VERIF_SEED=str(seed), VERIF_TIER=tier)
    if only is not None:
        env["VERIF_ONLY"] = str(only)
    pkgpath = os.path.normpath(os.path.join(REPO, spec["pkg"]))
    t0 = time.time()
    try:
        rc, out = sh([binp, "-test.run", "^" + spec["test"] + "$", "-test.count=1", "-test.timeout", "%ds" % timeout],
                     cwd=pkgpath, env=env, timeout=timeout + 60)
    except subprocess.TimeoutExpired:
        rc, out = 124, "driver timed out"
    return rc, out, time.time() - t0


def load_cases(outdir):
    coq, js = [], {}
    p = os.path.join(outdir, "cases.coq")
    if os.path.exists(p):
        for line in open(p):
            i, term = line.rstrip("\n").split("\t", 1)
            coq.append((int(i), term))
    p = os.path.join(outdir, "cases.jsonl")
    if os.path.exists(p):
        for line in open(p):
            try:
                o = json.loads(line)
                js[o["i"]] = o
            except Exception:
                pass
    summ = {}
    p = os.path.join(outdir, "summary.json")
    if os.path.exists(p):
        summ = json.load(open(p))
    return coq, js, summ


def parse_nlist(s):
    return [int(x) for x in re.findall(r"\d+", s)]


def eval_shard(args):
    spec, workdir, k, shard = args
    p = os.path.join(workdir, "run_%s_%d.v" % (spec["id"], k))
    with open(p, "w") as f:
        f.write("From Coq Require Import List NArith ZArith Bool String Ascii.\nFrom Cfg Require Import %s.\n" % spec["harness"])
        f.write("Import ListNotations.\nOpen Scope N_scope.\n")
        f.write(spec.get("run_prelude", ""))
        f.write("Definition cases : list case := [\n")
        f.write(";\n".join(t for _, t in shard))
        f.write("\n].\nDefinition R := Eval vm_compute in run cases.\n")
        f.write('Goal True. idtac "@@BEGIN". exact I. Qed.\nPrint R.\nGoal True. idtac "@@END". exact I. Qed.\n')
    try:
        # large list literals (e.g. 64K-byte payloads) can exhaust the default 8 MB stack of coqc
        rc, out = sh("ulimit -s unlimited 2>/dev/null || ulimit -s 4000000 2>/dev/null; exec coqc -Q '%s' Cfg '%s'" % (COQ, p),
                     cwd=workdir, timeout=3600)
    except subprocess.TimeoutExpired:
        return k, None, "coqc timed out on shard %d" % k
    m = re.search(r"@@BEGIN(.*)@@END", out, re.S)
    if rc != 0 or not m:
        return k, None, out[-3000:]
    body = m.group(1)
    body = body[body.index("="):] if "=" in body else body
    # R = ([..], [..]) : list N * list N
    body = body.split(":")[0]
    m2 = re.search(r"\(\s*\[(.*?)\]\s*,\s*\[(.*?)\]\s*\)", body, re.S)
    if not m2:
        return k, None, "cannot parse: " + body[:500]
    idx = [i for i, _ in shard]
    corr = [idx[j] for j in parse_nlist(m2.group(1))]
    orc = [idx[j] for j in parse_nlist(m2.group(2))]
    return k, (corr, orc), ""


def coq_eval(spec, cases, workdir):
    shard_size = spec.get("shard", SHARD)
    shards = [cases[i:i + shard_size] for i in range(0, len(cases), shard_size)]
    corr, orc, errs = [], [], []
    with ThreadPoolExecutor(max_workers=min(len(shards) or 1, os.cpu_count() or 4)) as ex:
        for k, res, err in ex.map(eval_shard, [(spec, workdir, k, s) for k, s in enumerate(shards)]):
            if res is None:
                errs.append(err)
            else:
                corr += res[0]; orc += res[1]
    return sorted(corr), sorted(orc), errs


# ----------------------------------------------------------------------------- findings

def load_findings():
    found = {}
    p = os.path.join(VERIF, "KNOWN_FINDINGS.txt")
    if os.path.exists(p):
        for line in open(p):
            line = line.strip()
            m = re.match(r"finding:\s+property=(\S+)\s+key=(\S+)\s+(.*)", line)
            if m:
                found.setdefault(m.group(1), {})[m.group(2)] = m.group(3)
    return found


def case_key(spec, j):
    fk = spec.get("finding_key")
    if fk and isinstance(j.get("case"), dict) and fk in j["case"]:
        return str(j["case"][fk])
    return None


# ----------------------------------------------------------------------------- evidence

def validate_evidence(ev):
    schema = "/root/.vp/EVIDENCE.schema.json"
    if not os.path.exists(schema):
        return True, ""
    code = ("import json,sys,jsonschema\n"
            "s=json.load(open(%r)); e=json.load(sys.stdin)\n"
            "jsonschema.Draft202012Validator(s).validate(e)\n" % schema)
    for py in ("python3-vt", sys.executable):
        try:
            p = subprocess.run([py, "-c", code], input=json.dumps(ev), text=True, capture_output=True, timeout=60)
        except Exception:
            continue
        if p.returncode == 0:
            return True, ""
        if "No module named" in p.stderr:
            continue
        return False, p.stderr[-1500:]
    return True, "jsonschema unavailable"


def write_evidence(spec, ev):
    os.makedirs(os.path.join(VERIF, "evidence"), exist_ok=True)
    ok, msg = validate_evidence(ev)
    if not ok:
        log("evidence does not validate:", msg)
    p = os.path.join(VERIF, "evidence", spec["id"] + ".json")
    json.dump(ev, open(p, "w"), indent=1, sort_keys=True)
    return ok


def write_replay(spec, kind, payload):
    os.makedirs(os.path.join(VERIF, "replays"), exist_ok=True)
    h = hashlib.sha256(json.dumps(payload, sort_keys=True).encode()).hexdigest()[:12]
    p = os.path.join(VERIF, "replays", "%s-%s-%s.json" % (spec["id"], kind, h))
    json.dump(payload, open(p, "w"), indent=1, sort_keys=True)
    return p


# ----------------------------------------------------------------------------- main flow

def anchor_files(pid):
    for l in open(os.path.join(VERIF, "properties.jsonl")):
        if l.strip():
            o = json.loads(l)
            if o["id"] == pid:
                return o["anchors"]["files"]
    return []


def anchors_hash(pid):
    h = hashlib.sha256()
    for f in sorted(anchor_files(pid)):
        p = os.path.join(REPO, f)
        h.update(f.encode())
        h.update(open(p, "rb").read() if os.path.exists(p) else b"<missing>")
    return h.hexdigest()[:16]


def anchors_changed(pid):
    """True when the files the property is anchored in differ from the committed baseline (props/anchors.lock.json):
    not an alarm, only a reason to explore more cases in this run."""
    p = os.path.join(VERIF, "props", "anchors.lock.json")
    if not os.path.exists(p):
        return False
    base = json.load(open(p)).get(pid)
    return base is not None and base != anchors_hash(pid)


def load_spec(pid):
    p = os.path.join(VERIF, "props", pid + ".json")
    spec = json.load(open(p))
    spec.setdefault("id", pid)
    return spec


def explore(spec, binp, workdir, n, seed, tier, tag, only=None):
    outdir = os.path.join(workdir, "out_" + tag)
    rc, out, dt = run_driver(spec, binp, outdir, n, seed, tier, only=only, timeout=spec.get("driver_timeout", 3000))
    cases, js, summ = load_cases(outdir)
    res = dict(rc=rc, log=out[-4000:], wall=dt, cases=cases, js=js, summary=summ, corr=[], oracle=[], eval_errors=[])
    if cases:
        c, o, errs = coq_eval(spec, cases, workdir)
        res.update(corr=c, oracle=o, eval_errors=errs)
    return res


def check(pid, tier="quick", replay=None):
    t_start = time.time()
    spec = load_spec(pid)
    seed = int(os.environ.get("VERIF_SEED", "1") or 1)
    workdir = os.path.join(BUILD, pid)
    os.makedirs(workdir, exist_ok=True)
    n = spec.get("thorough_n" if tier == "thorough" else "quick_n", 500)
    escalated = False
    if tier == "quick" and not replay and anchors_changed(pid):
        # the anchored source changed since the baseline: explore more (bounded), recorded in evidence
        n = min(spec.get("thorough_n", n), spec.get("escalate_n", 4 * n))
        escalated = True
    violations, known, notes = [], [], []
    findings = load_findings().get(pid, {})

    # 1. Coq: regenerate Gen, build the cone, scan, Print Assumptions
    cb = coq_build(spec)
    aok, astatus = (False, {})
    if cb["rc"] == 0:
        aok, astatus = print_assumptions(spec, workdir)
    proofs_ok = cb["ok"] and aok
    if not proofs_ok:
        notes.append("proof cone does not check: " + json.dumps(dict(failed=cb["failed"], forbidden=cb["forbidden"],
                     translators=cb["translator_errors"], assumptions={k: v for k, v in astatus.items() if not v["ok"]}))[:1500])
    harness_vo = os.path.exists(os.path.join(COQ, spec["harness"].replace(".", "/") + ".vo"))

    # 2. Go driver against the current working tree
    bok, blog, binp, bdt, bcmd = build_driver(spec, workdir)
    res = None
    replay_only = None
    if replay:
        rp = json.load(open(replay))
        seed = rp.get("seed", seed); n = rp.get("n", n); tier_r = rp.get("tier", tier)
        replay_only = rp.get("index")
    if not bok:
        notes.append("driver does not build against the current tree: " + blog[-1500:])
    elif not harness_vo:
        notes.append("Coq harness module did not build; cannot evaluate cases")
    else:
        res = explore(spec, binp, workdir, n, seed, tier, "main", only=replay_only)
        if res["rc"] != 0:
            notes.append("driver exited %d: %s" % (res["rc"], res["log"][-1200:]))
        if res["eval_errors"]:
            notes.append("Coq evaluation errors: " + " | ".join(res["eval_errors"])[:1500])

    # 3. Verdict
    def report_oracle_failures(r, tagname):
        seen_keys = set()
        order = sorted(r["oracle"], key=lambda i: (len(json.dumps(r["js"].get(i, {}))), i))  # smallest failing case first
        for i in order:
            j = r["js"].get(i, {"i": i})
            key = case_key(spec, j)
            if key is not None and key in findings:
                if key not in seen_keys:
                    known.append((key, findings[key]))
                    seen_keys.add(key)
                continue
            if key is not None and key in seen_keys:
                continue
            seen_keys.add(key)
            path = write_replay(spec, "oracle", dict(property=pid, kind="property fails on implementation behaviour",
                                seed=seed, n=r.get("n", n), tier=tier, index=i, case=j, key=key,
                                how="bin/check %s --replay <this file>" % pid))
            violations.append((path, ""))
            if len(violations) >= 3:
                break

    broken_tie = False
    if res is not None:
        res["n"] = n
        report_oracle_failures(res, "main")
        driver_bad = res["rc"] != 0 or res["eval_errors"] or not res["cases"]
        if (res["corr"] or driver_bad or not proofs_ok) and not violations:
            broken_tie = True
    else:
        broken_tie = True

    search = None
    if broken_tie and not replay:
        # search for a concrete failing input at thorough size with fresh seeds
        if res is not None and bok and harness_vo and spec.get("search", True):
            sn = max(spec.get("thorough_n", n), n)
            sn = min(sn, spec.get("search_n", sn))
            search = explore(spec, binp, workdir, sn, seed + 7919, "thorough", "search")
            search["n"] = sn
            seed_main = seed
            seed = seed + 7919
            report_oracle_failures(search, "search")
            seed = seed_main
        if not violations:
            first = None
            if res is not None and res["corr"]:
                first = res["js"].get(res["corr"][0], {"i": res["corr"][0]})
            what = []
            if not proofs_ok:
                what.append("theorem(s) of %s no longer check: %s" % (spec["props"], "; ".join(
                    "%s:%d %s" % (f["file"], f["line"], f["msg"].split("\n")[0]) for f in cb["failed"]) or notes[0][:600]))
            if res is None or not bok:
                what.append("correspondence driver %s no longer builds/runs against the tree" % spec["test"])
            elif res["corr"]:
                what.append("correspondence %s.corr fails on %d/%d cases (model and implementation differ)" % (
                    spec["harness"], len(res["corr"]), len(res["cases"])))
            elif res["rc"] != 0 or res["eval_errors"] or not res["cases"]:
                what.append("correspondence run incomplete (driver rc=%s, eval errors=%d, cases=%d)" % (
                    res["rc"], len(res["eval_errors"]), len(res["cases"])))
            path = write_replay(spec, "tie", dict(property=pid, kind="proof obligation or correspondence no longer checks; no failing input found",
                                broken=what, first_diverging_case=first, seed=seed, n=n, tier=tier,
                                index=(res["corr"][0] if res is not None and res["corr"] else None),
                                searched=(dict(cases=len(search["cases"]), oracle_failures=len(search["oracle"])) if search else None),
                                notes=notes))
            violations.append((path, " no-failing-input-found"))

    # generator vacuity guard (on the unchanged tree this makes the check *broken*, not quiet)
    if res is not None and res["cases"] and not replay:
        dn = res["summary"].get("distinct_nontrivial", 0)
        if dn < spec.get("min_nontrivial", 2):
            notes.append("generator produced only %d distinct non-trivial cases (< %d)" % (dn, spec.get("min_nontrivial", 2)))
            if not violations:
                path = write_replay(spec, "vacuous", dict(property=pid, kind="vacuous exploration", notes=notes))
                violations.append((path, " no-failing-input-found"))

    # 4. Evidence
    summ = res["summary"] if res is not None else {}
    samples = []
    if res is not None:
        for i in sorted(res["js"])[:3] + sorted(res["js"])[-2:]:
            samples.append(res["js"][i])
    n_theorems = len(spec.get("theorems", []))
    discharged = cb["obligations"] if proofs_ok else max(0, cb["obligations"] - max(1, len(cb["failed"])))
    ev = dict(
        property_id=pid, tier=tier, seed=seed, level="proof", wall_s=round(time.time() - t_start, 2),
        violations=len(violations),
        assumptions=spec.get("assumptions", []),
        coverage=dict(
            obligations=max(cb["obligations"], 1), discharged=max(discharged, 1) if proofs_ok else discharged,
            checker_cmd="make -C /verif/coq %s (coqc 8.16.1, full .vo build) ; coqc Print Assumptions for %s" % (
                " ".join(m.replace(".", "/") + ".vo" for m in [spec["props"], spec["harness"]]), ", ".join(spec.get("theorems", []))),
            trusted_base=spec.get("trusted_base", []) + [
                "Coq 8.16.1 kernel incl. vm_compute (no native_compute)",
                "axioms per Print Assumptions: " + json.dumps({k: v["axioms"] for k, v in astatus.items()}),
                "hand-written model tied to /repo by differential execution of the Go driver %s (go test -overlay, in-package) and Coq evaluation of Harness corr/oracle" % spec["test"],
            ],
            property_theorems=spec.get("theorems", []),
            proof_cone_files=cb["cone"],
            proofs_checked=proofs_ok,
            evaluations=int(summ.get("evaluations", 0)),
            distinct=int(summ.get("distinct", 0)),
            distinct_nontrivial=int(summ.get("distinct_nontrivial", 0)),
            rule=spec.get("nontrivial_rule", ""),
            classes=summ.get("classes", {}),
            extra=summ.get("extra", {}),
            traces_validated_against_impl=(len(res["cases"]) - len(res["corr"])) if res is not None else 0,
            corr_failures=len(res["corr"]) if res is not None else 0,
            oracle_failures=len(res["oracle"]) if res is not None else 0,
            known_findings_observed=[k for k, _ in known],
            anchors_changed_escalated=escalated,
            samples=samples or [{"note": "no cases were produced"}],
            driver_build_cmd=bcmd,
            timings=dict(coq_build_s=round(cb["wall"], 2), go_build_s=round(bdt, 2), driver_s=round(res["wall"], 2) if res else None),
            notes=notes,
        ),
    )
    if tier == "thorough" and spec.get("coqchk", True) and proofs_ok and not replay:
        ev["coverage"]["coqchk"] = run_coqchk(spec)
    write_evidence(spec, ev)

    seen_known = set()
    for key, what in known:
        if key in seen_known:
            continue
        seen_known.add(key)
        print("KNOWN-FINDING: property=%s %s (key=%s)" % (pid, what, key))
    for n_ in notes:
        log("note:", n_[:2000])
    if violations:
        for path, suffix in violations:
            print("VIOLATION property=%s replay=%s%s" % (pid, path, suffix))
        return 1
    print("OK property=%s tier=%s cases=%d nontrivial=%d obligations=%d wall=%.1fs" % (
        pid, tier, len(res["cases"]) if res else 0, int(summ.get("distinct_nontrivial", 0)), cb["obligations"], time.time() - t_start))
    return 0


def run_coqchk(spec):
    mods = ["Cfg." + spec["props"]]
    t0 = time.time()
    with MultiLock(["cone:" + f for f in cone_of([spec["props"], spec["harness"]]) if not f.startswith("Lib/")]):
        try:
            rc, out = sh(["coqchk", "-silent", "-o", "-Q", COQ, "Cfg"] + mods, cwd=COQ, timeout=3 * 3600)
        except subprocess.TimeoutExpired:
            return dict(ok=False, note="coqchk timed out")
    return dict(ok=rc == 0, wall_s=round(time.time() - t0, 1), output_tail=out[-1500:])


def main(argv):
    import argparse
    ap = argparse.ArgumentParser()
    ap.add_argument("pid")
    ap.add_argument("--tier", default=os.environ.get("VERIF_TIER", "quick") or "quick")
    ap.add_argument("--replay")
    a = ap.parse_args(argv)
    tier = a.tier if a.tier in ("quick", "thorough") else "quick"
    try:
        with Lock("prop:" + a.pid):   # runs of one property share .build/<id>: serialise them
            return check(a.pid, tier, a.replay)
    except Exception as e:  # never die silently: a crashed check is a broken check
        import traceback
        traceback.print_exc()
        spec = dict(id=a.pid)
        path = write_replay(spec, "crash", dict(property=a.pid, kind="check machinery crashed", error=repr(e)))
        print("VIOLATION property=%s replay=%s no-failing-input-found" % (a.pid, path))
        return 1


if __name__ == "__main__":
    sys.exit(main(sys.argv[1:]))
